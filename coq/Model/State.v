(* State.v — the state of the PoA chain core: x/staking, x/slashing, bank pools, PoA items, and the
   validator sets CometBFT holds. Identities are small integers (operator id = account id of the
   operator; consensus-key id); the harness owns a key pool whose byte order is the id order. *)
From stdpp Require Import gmap.
Require Import Model.Base Model.Validate.
Open Scope Z_scope.

Inductive status := Unbonded | Unbonding | Bonded.
Definition status_eqb (a b : status) : bool :=
  match a, b with Unbonded, Unbonded | Unbonding, Unbonding | Bonded, Bonded => true | _, _ => false end.
Definition status_code (s : status) : Z := match s with Unbonded => 1 | Unbonding => 2 | Bonded => 3 end.

(* time: integer seconds relative to genesis; two distinguished constants of the Go side *)
Definition genesis_unix : Z := 1000000.
Definition t_epoch : Z := - genesis_unix.                   (* time.Unix(0,0) *)
Definition t_zero : Z := -62135596800 - genesis_unix.       (* time.Time{} *)

Record validator := {
  v_cons : Z;
  v_jailed : bool;
  v_status : status;
  v_tokens : Z;
  v_shares : Z;        (* LegacyDec scaled by 10^18 *)
  v_ubheight : Z;
  v_ubtime : Z;
  v_msd : Z;
  v_rate : Z; v_maxrate : Z; v_maxchg : Z;
  v_moniker : Z        (* length of the moniker (the only description field the histories vary) *)
}.

Definition set_tokens (v : validator) (t : Z) : validator :=
  {| v_cons := v_cons v; v_jailed := v_jailed v; v_status := v_status v; v_tokens := t; v_shares := v_shares v;
     v_ubheight := v_ubheight v; v_ubtime := v_ubtime v; v_msd := v_msd v; v_rate := v_rate v; v_maxrate := v_maxrate v;
     v_maxchg := v_maxchg v; v_moniker := v_moniker v |}.
Definition set_shares (v : validator) (s : Z) : validator :=
  {| v_cons := v_cons v; v_jailed := v_jailed v; v_status := v_status v; v_tokens := v_tokens v; v_shares := s;
     v_ubheight := v_ubheight v; v_ubtime := v_ubtime v; v_msd := v_msd v; v_rate := v_rate v; v_maxrate := v_maxrate v;
     v_maxchg := v_maxchg v; v_moniker := v_moniker v |}.
Definition set_status (v : validator) (s : status) : validator :=
  {| v_cons := v_cons v; v_jailed := v_jailed v; v_status := s; v_tokens := v_tokens v; v_shares := v_shares v;
     v_ubheight := v_ubheight v; v_ubtime := v_ubtime v; v_msd := v_msd v; v_rate := v_rate v; v_maxrate := v_maxrate v;
     v_maxchg := v_maxchg v; v_moniker := v_moniker v |}.
Definition set_jailed (v : validator) (j : bool) : validator :=
  {| v_cons := v_cons v; v_jailed := j; v_status := v_status v; v_tokens := v_tokens v; v_shares := v_shares v;
     v_ubheight := v_ubheight v; v_ubtime := v_ubtime v; v_msd := v_msd v; v_rate := v_rate v; v_maxrate := v_maxrate v;
     v_maxchg := v_maxchg v; v_moniker := v_moniker v |}.
Definition set_unbonding (v : validator) (h t : Z) : validator :=
  {| v_cons := v_cons v; v_jailed := v_jailed v; v_status := Unbonding; v_tokens := v_tokens v; v_shares := v_shares v;
     v_ubheight := h; v_ubtime := t; v_msd := v_msd v; v_rate := v_rate v; v_maxrate := v_maxrate v;
     v_maxchg := v_maxchg v; v_moniker := v_moniker v |}.

Definition v_power (v : validator) : Z := tokens_to_power (v_tokens v).

(* x/staking *)
Record staking := {
  vals : gmap Z validator;          (* by operator id *)
  by_cons : gmap Z Z;               (* consensus key id -> operator id *)
  pidx : list (Z * Z);              (* power index keys (power, operator id): a set *)
  last_pow : gmap Z Z;              (* LastValidatorPower *)
  last_total : Z;                   (* LastTotalPower *)
  dels : gmap Z Z;                  (* self-delegation shares by operator id *)
  ubq : gmap (Z * Z) (list Z);      (* unbonding validator queue: (completion time, height) -> operator ids *)
  params : sparams
}.

(* x/slashing *)
Record signing := { si_start : Z; si_index : Z; si_until : Z; si_tomb : bool; si_missed : Z }.
Record sl_params := { slp_window : Z; slp_min_signed_pc : Z; slp_jail : Z; slp_slash_down_bp : Z; slp_slash_dbl_bp : Z }.
Record slashing := {
  infos : gmap Z signing;           (* by consensus key id *)
  bitmaps : gmap Z (list Z);        (* missed-block bitmap: indexes set to "missed" *)
  slparams : sl_params
}.

(* bank: the two staking pools and the bond-denom supply *)
Record bank := { bonded_pool : Z; notbonded_pool : Z; supply : Z }.

(* PoA's own store *)
Record pending_val := { p_oper : Z; p_cons : Z; p_rate : Z; p_maxrate : Z; p_maxchg : Z; p_moniker : Z }.
Record poa_store := { pending : list pending_val; cached_power : Z; abs_changed : Z }.

Record chain := {
  height : Z;
  now : Z;
  stk : staking;
  sl : slashing;
  bk : bank;
  poa : poa_store;
  seqs : gmap Z Z                   (* account sequence numbers (what a failed message still consumes) *)
}.

(* CometBFT's validator sets: cons key id -> power. c_prev signs the next block's LastCommit. *)
Record comet := { c_prev : option (gmap Z Z); c_cur : gmap Z Z; c_next : gmap Z Z }.

Inductive halt_reason :=
| HBeginBlock (e : Z)      (* 1 distribution: voter without validator record; 2 slashing: validator / signing info missing *)
| HEndBlock (e : Z)        (* 1 record not found; 2 bad state transition; 3 unbonding queue; 4 pool transfer *)
| HComet (e : Z).          (* 1 duplicate; 2 negative; 3 remove non-member; 4 empty; 5 too large *)

Record world := { w_chain : chain; w_comet : comet; w_halted : option halt_reason }.

(* record updaters *)
Definition with_stk (c : chain) (s : staking) : chain :=
  {| height := height c; now := now c; stk := s; sl := sl c; bk := bk c; poa := poa c; seqs := seqs c |}.
Definition with_sl (c : chain) (s : slashing) : chain :=
  {| height := height c; now := now c; stk := stk c; sl := s; bk := bk c; poa := poa c; seqs := seqs c |}.
Definition with_bk (c : chain) (b : bank) : chain :=
  {| height := height c; now := now c; stk := stk c; sl := sl c; bk := b; poa := poa c; seqs := seqs c |}.
Definition with_poa (c : chain) (p : poa_store) : chain :=
  {| height := height c; now := now c; stk := stk c; sl := sl c; bk := bk c; poa := p; seqs := seqs c |}.
Definition with_seqs (c : chain) (q : gmap Z Z) : chain :=
  {| height := height c; now := now c; stk := stk c; sl := sl c; bk := bk c; poa := poa c; seqs := q |}.
Definition with_clock (c : chain) (h t : Z) : chain :=
  {| height := h; now := t; stk := stk c; sl := sl c; bk := bk c; poa := poa c; seqs := seqs c |}.

Definition st_vals (s : staking) (m : gmap Z validator) : staking :=
  {| vals := m; by_cons := by_cons s; pidx := pidx s; last_pow := last_pow s; last_total := last_total s; dels := dels s; ubq := ubq s; params := params s |}.
Definition st_by_cons (s : staking) (m : gmap Z Z) : staking :=
  {| vals := vals s; by_cons := m; pidx := pidx s; last_pow := last_pow s; last_total := last_total s; dels := dels s; ubq := ubq s; params := params s |}.
Definition st_pidx (s : staking) (l : list (Z * Z)) : staking :=
  {| vals := vals s; by_cons := by_cons s; pidx := l; last_pow := last_pow s; last_total := last_total s; dels := dels s; ubq := ubq s; params := params s |}.
Definition st_last_pow (s : staking) (m : gmap Z Z) : staking :=
  {| vals := vals s; by_cons := by_cons s; pidx := pidx s; last_pow := m; last_total := last_total s; dels := dels s; ubq := ubq s; params := params s |}.
Definition st_last_total (s : staking) (t : Z) : staking :=
  {| vals := vals s; by_cons := by_cons s; pidx := pidx s; last_pow := last_pow s; last_total := t; dels := dels s; ubq := ubq s; params := params s |}.
Definition st_dels (s : staking) (m : gmap Z Z) : staking :=
  {| vals := vals s; by_cons := by_cons s; pidx := pidx s; last_pow := last_pow s; last_total := last_total s; dels := m; ubq := ubq s; params := params s |}.
Definition st_ubq (s : staking) (q : gmap (Z * Z) (list Z)) : staking :=
  {| vals := vals s; by_cons := by_cons s; pidx := pidx s; last_pow := last_pow s; last_total := last_total s; dels := dels s; ubq := q; params := params s |}.
Definition st_params (s : staking) (p : sparams) : staking :=
  {| vals := vals s; by_cons := by_cons s; pidx := pidx s; last_pow := last_pow s; last_total := last_total s; dels := dels s; ubq := ubq s; params := p |}.

(* ---- small list utilities ---- *)
Definition pair_eqb (a b : Z * Z) : bool := (fst a =? fst b) && (snd a =? snd b).

Fixpoint insert_by {A} (le : A -> A -> bool) (x : A) (l : list A) : list A :=
  match l with
  | [] => [x]
  | y :: ys => if le x y then x :: l else y :: insert_by le x ys
  end.
Definition sort_by {A} (le : A -> A -> bool) (l : list A) : list A := fold_right (insert_by le) [] l.

(* iteration order of the power index: power descending, then operator id ascending *)
Definition pidx_le (a b : Z * Z) : bool := (fst b <? fst a) || ((fst a =? fst b) && (snd a <=? snd b)).
Definition sorted_keys (m : gmap Z Z) : list Z := sort_by Z.leb (map fst (map_to_list m)).
Definition sorted_val_ids (m : gmap Z validator) : list Z := sort_by Z.leb (map fst (map_to_list m)).
