(* Slashing.v — x/slashing's HandleValidatorSignature (downtime) and Unjail, re-written from
   cosmos-sdk v0.50.8 x/slashing/keeper/{infractions,unjail}.go. *)
From stdpp Require Import gmap.
Require Import Model.Base Model.Validate Model.State Model.Staking.
Open Scope Z_scope.

(* LegacyDec.RoundInt64: round half to even; den > 0, num >= 0 *)
Definition round_half_even (num den : Z) : Z :=
  let q := num / den in
  let r := num mod den in
  if 2 * r <? den then q
  else if den <? 2 * r then q + 1
  else if Z.even q then q else q + 1.

Definition min_signed_per_window (p : sl_params) : Z := round_half_even (slp_min_signed_pc p * slp_window p) 100.

Definition set_info (l : slashing) (cons : Z) (i : signing) : slashing :=
  {| infos := <[cons := i]> (infos l); bitmaps := bitmaps l; slparams := slparams l |}.
Definition set_bitmap (l : slashing) (cons : Z) (bm : list Z) : slashing :=
  {| infos := infos l; bitmaps := <[cons := bm]> (bitmaps l); slparams := slparams l |}.
Definition del_bitmap (l : slashing) (cons : Z) : slashing :=
  {| infos := infos l; bitmaps := delete cons (bitmaps l); slparams := slparams l |}.

(* one vote of the previous block's commit; None = BeginBlock returns an error (the chain halts) *)
Definition handle_signature (c : chain) (cons power : Z) (signed : bool) : option chain :=
  match by_cons (stk c) !! cons with
  | None => None
  | Some id =>
    match vals (stk c) !! id with
    | None => None
    | Some v =>
      if v_jailed v then Some c else
      match infos (sl c) !! cons with
      | None => None                                   (* "no validator signing info found" *)
      | Some i =>
        let p := slparams (sl c) in
        let w := slp_window p in
        let index := si_index i mod w in
        let bm := default [] (bitmaps (sl c) !! cons) in
        let previous := existsb (Z.eqb index) bm in
        let missed := negb signed in
        let '(bm', cnt) :=
          if negb previous && missed then (index :: bm, si_missed i + 1)
          else if previous && negb missed then (filter (fun x => negb (x =? index)) bm, si_missed i - 1)
          else (bm, si_missed i) in
        let i1 := {| si_start := si_start i; si_index := si_index i + 1; si_until := si_until i; si_tomb := si_tomb i; si_missed := cnt |} in
        let min_height := si_start i + w in
        let max_missed := w - min_signed_per_window p in
        if (min_height <? height c) && (max_missed <? cnt) then
          (* downtime confirmed: slash, jail, reset the window *)
          match slash c cons power (slp_slash_down_bp p * (dec_one / 10000)) with
          | None => None
          | Some c1 =>
            match jail (stk c1) cons with
            | None => None
            | Some s2 =>
              let i2 := {| si_start := si_start i; si_index := 0; si_until := now c + slp_jail p; si_tomb := si_tomb i; si_missed := 0 |} in
              Some (with_sl (with_stk c1 s2) (set_info (del_bitmap (sl c1) cons) cons i2))
            end
          end
        else Some (with_sl c (set_info (set_bitmap (sl c) cons bm') cons i1))
      end
    end
  end.

(* ---- x/evidence: handleEquivocationEvidence (cosmossdk.io/x/evidence v0.1.0 keeper/infraction.go) ----
   One Misbehavior entry of the block: the consensus key, the height and time of the double sign, the power CometBFT
   attributes to it. None = BeginBlock returns an error or panics (the chain halts). *)
Definition double_sign_jail_end : Z := 253402300799 - genesis_unix.     (* types.DoubleSignJailEndTime = 9999-12-31 23:59:59 *)
Definition ev_max_age_blocks : Z := 6.                             (* consensus params of the test chain *)
Definition ev_max_age_secs : Z := 30.

Record evidence := { ev_cons : Z; ev_height : Z; ev_time : Z; ev_power : Z }.

Definition handle_evidence (c : chain) (e : evidence) : option chain :=
  let cons := ev_cons e in
  match by_cons (stk c) !! cons with
  | None => None                                       (* ValidatorByConsAddr: ErrNoValidatorFound *)
  | Some id =>
    match vals (stk c) !! id with
    | None => None
    | Some v =>
      if status_eqb (v_status v) Unbonded then Some c  (* ignored *)
      else if (ev_max_age_secs <? now c - ev_time e) && (ev_max_age_blocks <? height c - ev_height e) then Some c   (* too old *)
      else
        match infos (sl c) !! cons with
        | None => None                                 (* panic: expected signing info *)
        | Some i =>
          if si_tomb i then Some c
          else if height c <? ev_height e - 1 then None   (* Slash: "impossible attempt to slash future infraction" *)
          else
            match slash c cons (ev_power e) (slp_slash_dbl_bp (slparams (sl c)) * (dec_one / 10000)) with
            | None => None
            | Some c1 =>
              match (if v_jailed v then Some (stk c1) else jail (stk c1) cons) with
              | None => None
              | Some s2 =>
                let i2 := {| si_start := si_start i; si_index := si_index i; si_until := double_sign_jail_end;
                             si_tomb := true; si_missed := si_missed i |} in
                Some (with_sl (with_stk c1 s2) (set_info (sl c1) cons i2))
              end
            end
        end
    end
  end.

(* MsgUnjail; the signer is the validator's operator *)
Inductive mres := MOk (c : chain) | MErr (e : err).

Definition msg_unjail (c : chain) (val : Z) : mres :=
  match vals (stk c) !! val with
  | None => MErr EStkNoValidatorFound
  | Some v =>
    match dels (stk c) !! val with
    | None => MErr ESlashMissingSelfDelegation
    | Some d =>
      if v_shares v =? 0 then MErr EPanic              (* TokensFromShares divides by the validator's shares *)
      else
        let tokens := (d * v_tokens v) / v_shares v in
        if tokens <? v_msd v then MErr ESlashSelfDelegationTooLow
        else if negb (v_jailed v) then MErr ESlashValidatorNotJailed
        else
          let blocked :=
            match infos (sl c) !! v_cons v with
            | Some i => si_tomb i || (now c <? si_until i)
            | None => false
            end in
          if blocked then MErr ESlashValidatorJailed
          else match unjail (stk c) (v_cons v) with
               | None => MErr EUndefined
               | Some s => MOk (with_stk c s)
               end
    end
  end.
