(* Poa.v — PoA's message handlers, BeginBlocker and queries (/repo/keeper, /repo/module/abci.go),
   as they are after the "fix:" commits. One function per Go function, same order of checks and
   writes. [MErr e] = the handler returns an error (BaseApp discards the transaction's writes). *)
From stdpp Require Import gmap.
Require Import Model.Base Model.Validate Model.State Model.Staking Model.Slashing.
Open Scope Z_scope.

(* configuration: the admin account (resolved from env / app config / gov default by NewKeeper) *)
Definition admin_id : Z := 100.
Definition is_admin (sender : Z) : bool := sender =? admin_id.

(* ---- UpdateBondedPoolPower: the bonded pool holds exactly the bonded validators' tokens ---- *)
Definition bonded_tokens (s : staking) : Z :=
  map_fold (fun _ v acc => if status_eqb (v_status v) Bonded then acc + v_tokens v else acc) 0 (vals s).

Definition update_bonded_pool (c : chain) : mres :=
  let target := bonded_tokens (stk c) in
  let pool := bonded_pool (bk c) in
  if target =? pool then MOk c
  else if pool <? target then MOk (with_bk c (mint_bonded (bk c) (target - pool)))
  else match burn_bonded (bk c) (pool - target) with
       | Some b => MOk (with_bk c b)
       | None => MErr ESdkInsufficientFunds
       end.

Definition mbind (r : mres) (f : chain -> mres) : mres := match r with MOk c => f c | MErr e => MErr e end.

(* ---- UpdateValidatorSet ---- *)
Definition update_validator_set (c : chain) (val : Z) (v : validator) (new_shares : Z) : mres :=
  let s1 := st_dels (stk c) (<[val := new_shares * dec_one]> (dels (stk c))) in
  let v' := set_status (set_shares (set_tokens v new_shares) (new_shares * dec_one)) Bonded in
  update_bonded_pool (with_stk c (set_validator s1 val v')).

(* ---- SetPOAPower (new_shares already cast to int64 by the caller) ---- *)
Definition set_poa_power (c : chain) (val : Z) (new_shares : Z) : mres :=
  let new_power := tokens_to_power new_shares in
  match vals (stk c) !! val with
  | None => MErr EStkNoValidatorFound
  | Some v =>
    let current_power := default 0 (last_pow (stk c) !! val) in
    if new_power =? current_power then MErr EUndefined            (* "current power is the same as the new power" *)
    else
      let s1 := del_index (stk c) val v in
      let current_tokens := v_tokens v in
      let v1 := set_tokens v new_shares in
      let r1 :=
        if (new_shares =? 0) && (0 <? current_power) then
          (* removal: burn everything the validator holds, leave it without an index entry *)
          match slash (with_stk c s1) (v_cons v) (tokens_to_power current_tokens + 1) dec_one with
          | None => MErr EUndefined
          | Some c2 => MOk (with_sl (with_stk c2 (del_index (stk c2) val v1)) (del_bitmap (sl c2) (v_cons v)))
          end
        else MOk (with_stk c (set_index s1 val v1)) in
      mbind r1 (fun c3 =>
        let power_before := if status_eqb (v_status v) Bonded && negb (v_jailed v) then tokens_to_power current_tokens else 0 in
        let abs_diff := Z.abs (new_power - power_before) in           (* via float64 in Go: exact below 2^53 *)
        let p := poa c3 in
        let c4 := with_poa c3 {| pending := pending p; cached_power := cached_power p; abs_changed := wrap_u64 (abs_changed p + abs_diff) |} in
        update_validator_set c4 val v1 new_shares)
  end.

(* ---- ensureActiveValidator ---- *)
Definition ensure_active (c : chain) (val : Z) : mres :=
  match vals (stk c) !! val with
  | None => MErr EStkNoValidatorFound
  | Some v => if v_jailed v then MErr EStkValidatorJailed
              else if negb (status_eqb (v_status v) Bonded) then MErr ESdkInvalidRequest
              else MOk c
  end.

(* ---- pending list ---- *)
Fixpoint remove_first_pending (val : Z) (l : list pending_val) : list pending_val :=
  match l with
  | [] => []
  | p :: rest => if p_oper p =? val then rest else p :: remove_first_pending val rest
  end.
Definition find_pending (val : Z) (l : list pending_val) : option pending_val :=
  find (fun p => p_oper p =? val) l.
Definition set_pending (c : chain) (l : list pending_val) : chain :=
  with_poa c {| pending := l; cached_power := cached_power (poa c); abs_changed := abs_changed (poa c) |}.

(* ---- AcceptNewValidator ---- *)
Definition accept_new_validator (c : chain) (p : pending_val) : mres :=
  let val := p_oper p in
  let v := {| v_cons := p_cons p; v_jailed := false; v_status := Unbonded; v_tokens := 0; v_shares := 0;
              v_ubheight := 0; v_ubtime := t_epoch; v_msd := 1; v_rate := p_rate p; v_maxrate := p_maxrate p;
              v_maxchg := p_maxchg p; v_moniker := p_moniker p |} in
  let s1 := set_validator (stk c) val v in
  let s2 := st_by_cons s1 (<[p_cons p := val]> (by_cons s1)) in
  let s3 := set_new_index s2 val v in
  let c1 := set_pending (with_stk c s3) (remove_first_pending val (pending (poa c))) in
  let info := {| si_start := height c; si_index := 0; si_until := now c; si_tomb := false; si_missed := 0 |} in
  (* setSlashingInfo: the missed-block bitmap of the key is deleted, the signing info starts afresh *)
  update_bonded_pool (with_sl c1 (set_info (del_bitmap (sl c1) (p_cons p)) (p_cons p) info)).

(* ---- MsgSetPower ---- *)
Definition msg_set_power (c : chain) (sender val power : Z) (unsafe : bool) : mres :=
  if negb (is_admin sender) then MErr EPoaNotAnAuthority else
  match setpower_validate (0 <=? val) power with
  | Err e => MErr e
  | Ok _ =>
    let r1 := match find_pending val (pending (poa c)) with
              | Some p => accept_new_validator c p
              | None => ensure_active c val
              end in
    mbind r1 (fun c1 =>
    mbind (set_poa_power c1 val (cast_i64 power)) (fun c2 =>
      if negb unsafe && (1 <? height c2) then
        let cached := cached_power (poa c2) in
        if cached =? 0 then MErr EPoaUnsafePower
        else
          let percent := wrap_u64 (abs_changed (poa c2) * 100) / cached in
          if 30 <=? percent then MErr EPoaUnsafePower else update_bonded_pool c2
      else update_bonded_pool c2))
  end.

(* ---- MsgRemoveValidator ---- *)
Definition other_signers (c : chain) (val : Z) : Z :=
  map_fold (fun id v acc =>
              if negb (id =? val) && status_eqb (v_status v) Bonded && negb (v_jailed v) && (0 <? v_power v) then acc + 1 else acc)
           0 (vals (stk c)).

Definition zero_info : signing := {| si_start := 0; si_index := 0; si_until := t_zero; si_tomb := false; si_missed := 0 |}.

Definition msg_remove_validator (c : chain) (sender val : Z) : mres :=
  let gate :=
    if is_admin sender then None
    else if val <? 0 then Some ESdkInvalidAddress                   (* IsSenderValidator: validator address does not decode *)
    else if sender =? val then None
    else Some EPoaNotAnAuthority in
  match gate with
  | Some e => MErr e
  | None =>
    if other_signers c val =? 0 then MErr EUndefined                (* "cannot remove the last validator in the set" *)
    else match vals (stk c) !! val with
         | None => MErr ESdkInvalidRequest                          (* does not exist *)
         | Some v =>
           if negb (status_eqb (v_status v) Bonded) then MErr ESdkInvalidRequest
           else
             mbind (set_poa_power c val 0) (fun c1 =>
               (* clearSlashingInfo *)
               let l := set_info (del_bitmap (sl c1) (v_cons v)) (v_cons v) zero_info in
               update_bonded_pool (with_sl c1 l))
         end
  end.

(* ---- MsgRemovePending ---- *)
Definition msg_remove_pending (c : chain) (sender val : Z) : mres :=
  if negb (is_admin sender) then MErr EPoaNotAnAuthority
  else MOk (set_pending c (remove_first_pending val (pending (poa c)))).

(* ---- MsgCreateValidator (signer = the operator's account) ---- *)
Fixpoint pending_conflict (val cons : Z) (l : list pending_val) : option err :=
  match l with
  | [] => None
  | p :: rest =>
      if p_oper p =? val then Some EStkOwnerExists
      else if p_cons p =? cons then Some EStkPubKeyExists
      else pending_conflict val cons rest
  end.

Definition msg_create_validator (c : chain) (val cons moniker rate mx chg : Z) : mres :=
  let basic := {| cb_addr_ok := true; cb_has_pubkey := 0 <=? cons;
                  cb_desc := {| dl_moniker := moniker; dl_identity := 0; dl_website := 0; dl_security := 0; dl_details := 0 |};
                  cb_rate := Some rate; cb_max := Some mx; cb_chg := Some chg |} in
  match poa_create_validate basic with
  | VErr e => MErr e
  | VPanicked => MErr EPanic
  | VOk =>
    let min_comm := default 0 (sp_min_commission (params (stk c))) in
    if rate <? min_comm then MErr EStkCommissionLTMinRate
    else if bool_decide (is_Some (vals (stk c) !! val)) then MErr EStkOwnerExists
    else if bool_decide (is_Some (by_cons (stk c) !! cons)) then MErr EStkPubKeyExists
    else match pending_conflict val cons (pending (poa c)) with
         | Some e => MErr e
         | None =>
           if negb (ensure_length (cb_desc basic)) then MErr ESdkInvalidRequest
           else
             let p := {| p_oper := val; p_cons := cons; p_rate := rate; p_maxrate := mx; p_maxchg := chg; p_moniker := moniker |} in
             update_bonded_pool (set_pending c (pending (poa c) ++ [p]))
         end
  end.

(* ---- MsgUpdateStakingParams ---- *)
Definition msg_update_params (c : chain) (sender : Z) (p : sparams) : mres :=
  if negb (is_admin sender) then MErr EPoaNotAnAuthority
  else if negb (params_validate p) then MErr EUndefined
  else if negb (sp_bond_denom p =? sp_bond_denom (params (stk c))) then MErr ESdkInvalidRequest
  else MOk (with_stk c (st_params (stk c) p)).

(* ---- BeginBlocker: refresh the cached total, zero the running sum (height > 1) ---- *)
Definition poa_begin_block (c : chain) : chain :=
  if 1 <? height c then
    with_poa c {| pending := pending (poa c); cached_power := last_total (stk c); abs_changed := 0 |}
  else c.

(* ---- queries (functions of the state; no state in the result) ---- *)
Definition query_power (c : chain) (val : Z) : option Z :=
  if val <? 0 then None
  else match vals (stk c) !! val with
       | None => None
       | Some _ => Some (default 0 (last_pow (stk c) !! val))
       end.
Definition query_pending (c : chain) : list pending_val := pending (poa c).
Definition query_authority : Z := admin_id.
