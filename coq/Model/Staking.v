(* Staking.v — the part of x/staking (rollchains fork of cosmos-sdk v0.50.8) that PoA drives:
   power index, validator state transitions, Slash, Jail/Unjail, the EndBlocker
   (ApplyAndReturnValidatorSetUpdates + UnbondAllMatureValidators). Re-written from the Go source;
   tied to it only by the correspondence check. *)
From stdpp Require Import gmap.
Require Import Model.Base Model.Validate Model.State.
Open Scope Z_scope.

(* ---- power index ---- *)
Definition pidx_add (k : Z * Z) (l : list (Z * Z)) : list (Z * Z) :=
  if existsb (pair_eqb k) l then l else k :: l.
Definition pidx_del (k : Z * Z) (l : list (Z * Z)) : list (Z * Z) :=
  filter (fun x => negb (pair_eqb k x)) l.

Definition set_validator (s : staking) (id : Z) (v : validator) : staking := st_vals s (<[id := v]> (vals s)).
(* SetValidatorByPowerIndex: jailed validators are not kept in the power index *)
Definition set_index (s : staking) (id : Z) (v : validator) : staking :=
  if v_jailed v then s else st_pidx s (pidx_add (v_power v, id) (pidx s)).
(* SetNewValidatorByPowerIndex: no jailed test *)
Definition set_new_index (s : staking) (id : Z) (v : validator) : staking :=
  st_pidx s (pidx_add (v_power v, id) (pidx s)).
Definition del_index (s : staking) (id : Z) (v : validator) : staking :=
  st_pidx s (pidx_del (v_power v, id) (pidx s)).

(* ---- unbonding validator queue: a store keyed by (completion time, height), iterated in key order ---- *)
Definition slot_le (a b : Z * Z * list Z) : bool :=
  let '(ta, ha, _) := a in let '(tb, hb, _) := b in (ta <? tb) || ((ta =? tb) && (ha <=? hb)).

(* InsertUnbondingValidatorQueue: append to the slot's list *)
Definition ubq_insert (t h id : Z) (q : gmap (Z * Z) (list Z)) : gmap (Z * Z) (list Z) :=
  <[(t, h) := default [] (q !! (t, h)) ++ [id]]> q.

(* DeleteValidatorQueue: drop the address from the slot; drop the slot when it becomes empty *)
Definition ubq_delete (t h id : Z) (q : gmap (Z * Z) (list Z)) : gmap (Z * Z) (list Z) :=
  match filter (fun x => negb (x =? id)) (default [] (q !! (t, h))) with
  | [] => delete (t, h) q
  | ids' => <[(t, h) := ids']> q
  end.

Definition sorted_slots (q : gmap (Z * Z) (list Z)) : list (Z * Z * list Z) := sort_by slot_le (map_to_list q).

(* ---- pools ---- *)
Definition burn_bonded (b : bank) (amt : Z) : option bank :=
  if bonded_pool b <? amt then None
  else Some {| bonded_pool := bonded_pool b - amt; notbonded_pool := notbonded_pool b; supply := supply b - amt |}.
Definition burn_notbonded (b : bank) (amt : Z) : option bank :=
  if notbonded_pool b <? amt then None
  else Some {| bonded_pool := bonded_pool b; notbonded_pool := notbonded_pool b - amt; supply := supply b - amt |}.
Definition mint_bonded (b : bank) (amt : Z) : bank :=
  {| bonded_pool := bonded_pool b + amt; notbonded_pool := notbonded_pool b; supply := supply b + amt |}.
(* positive amt: not-bonded -> bonded; negative: bonded -> not-bonded *)
Definition pool_transfer (b : bank) (to_bonded : Z) : option bank :=
  if (0 <=? to_bonded) then
    if notbonded_pool b <? to_bonded then None
    else Some {| bonded_pool := bonded_pool b + to_bonded; notbonded_pool := notbonded_pool b - to_bonded; supply := supply b |}
  else
    if bonded_pool b <? - to_bonded then None
    else Some {| bonded_pool := bonded_pool b + to_bonded; notbonded_pool := notbonded_pool b - to_bonded; supply := supply b |}.

(* ---- Slash (x/staking/keeper/slash.go), for validators without unbonding delegations ----
   factor: LegacyDec scaled by 10^18. Returns None where the Go returns an error. *)
Definition slash (c : chain) (cons : Z) (power : Z) (factor : Z) : option chain :=
  if factor <? 0 then None else
  let slash_amount := (power * power_reduction * factor) / dec_one in
  match by_cons (stk c) !! cons with
  | None => Some c                                  (* unknown validator: ignored *)
  | Some id =>
    match vals (stk c) !! id with
    | None => Some c
    | Some v =>
      if status_eqb (v_status v) Unbonded then None  (* "should not be slashing unbonded validator" *)
      else
        let burn := Z.max 0 (Z.min slash_amount (v_tokens v)) in
        if burn =? 0 then Some c
        else
          (* RemoveValidatorTokens: re-key the power index around the token change *)
          let s1 := del_index (stk c) id v in
          let v' := set_tokens v (v_tokens v - burn) in
          let s2 := set_index (set_validator s1 id v') id v' in
          match (if status_eqb (v_status v) Bonded then burn_bonded (bk c) burn else burn_notbonded (bk c) burn) with
          | None => None
          | Some b => Some (with_bk (with_stk c s2) b)
          end
    end
  end.

(* Jail / Unjail by consensus address. None = Go error or panic. *)
Definition jail (s : staking) (cons : Z) : option staking :=
  match by_cons s !! cons with
  | None => None
  | Some id =>
    match vals s !! id with
    | None => None
    | Some v => if v_jailed v then None
                else let v' := set_jailed v true in Some (del_index (set_validator s id v') id v')
    end
  end.

Definition unjail (s : staking) (cons : Z) : option staking :=
  match by_cons s !! cons with
  | None => None
  | Some id =>
    match vals s !! id with
    | None => None
    | Some v => if negb (v_jailed v) then None
                else let v' := set_jailed v false in Some (set_index (set_validator s id v') id v')
    end
  end.

(* ---- validator state transitions ---- *)
(* slashing's AfterValidatorBonded hook: create the signing info or reset its start height *)
Definition after_bonded (l : slashing) (cons h : Z) : slashing :=
  let i := match infos l !! cons with
           | Some i => {| si_start := h; si_index := si_index i; si_until := si_until i; si_tomb := si_tomb i; si_missed := si_missed i |}
           | None => {| si_start := h; si_index := 0; si_until := t_epoch; si_tomb := false; si_missed := 0 |}
           end in
  {| infos := <[cons := i]> (infos l); bitmaps := bitmaps l; slparams := slparams l |}.

(* bondValidator *)
Definition bond_validator (c : chain) (id : Z) (v : validator) : chain * validator :=
  let s1 := del_index (stk c) id v in
  let v' := set_status v Bonded in
  let s2 := set_index (set_validator s1 id v') id v' in
  let s3 := st_ubq s2 (ubq_delete (v_ubtime v') (v_ubheight v') id (ubq s2)) in
  (with_sl (with_stk c s3) (after_bonded (sl c) (v_cons v') (height c)), v').

(* BeginUnbondingValidator; the status test is the caller's (bondedToUnbonding panics otherwise) *)
Definition begin_unbonding (c : chain) (id : Z) (v : validator) : chain * validator :=
  let s1 := del_index (stk c) id v in
  let t := now c + sp_unbonding_time (params (stk c)) / 1000000000 in
  let v' := set_unbonding v (height c) t in
  let s2 := set_index (set_validator s1 id v') id v' in
  let s3 := st_ubq s2 (ubq_insert t (height c) id (ubq s2)) in
  (with_stk c s3, v').

(* ---- ApplyAndReturnValidatorSetUpdates ---- *)
Record loop_acc := {
  la_chain : chain;
  la_last : gmap Z Z;          (* shrinking copy of the last validator set *)
  la_upd : list (Z * Z);       (* (consensus key id, power), in emission order *)
  la_count : Z;
  la_total : Z;
  la_to_bonded : Z             (* tokens entering the bonded pool minus tokens leaving it *)
}.

Inductive loop_res := LDone (a : loop_acc) | LHalt (e : Z).

Fixpoint apply_loop (keys : list (Z * Z)) (maxv : Z) (a : loop_acc) : loop_res :=
  match keys with
  | [] => LDone a
  | (_, id) :: ks =>
    if maxv <=? la_count a then LDone a else
    match vals (stk (la_chain a)) !! id with
    | None => LHalt 1                                   (* mustGetValidator panics *)
    | Some v =>
      if v_jailed v then apply_loop ks maxv a           (* fork: continue *)
      else if v_power v =? 0 then LDone a               (* break *)
      else
        let '(c1, v1, moved) :=
          match v_status v with
          | Bonded => (la_chain a, v, 0)
          | _ => let '(c', v') := bond_validator (la_chain a) id v in (c', v', v_tokens v')
          end in
        let p := v_power v1 in
        let changed := match la_last a !! id with Some old => negb (old =? p) | None => true end in
        let c2 := if changed then with_stk c1 (st_last_pow (stk c1) (<[id := p]> (last_pow (stk c1)))) else c1 in
        apply_loop ks maxv
          {| la_chain := c2; la_last := delete id (la_last a);
             la_upd := if changed then la_upd a ++ [(v_cons v1, p)] else la_upd a;
             la_count := la_count a + 1; la_total := la_total a + p;
             la_to_bonded := la_to_bonded a + moved |}
    end
  end.

Fixpoint unbond_loop (ids : list Z) (a : loop_acc) : loop_res :=
  match ids with
  | [] => LDone a
  | id :: rest =>
    match vals (stk (la_chain a)) !! id with
    | None => LHalt 1
    | Some v =>
      if negb (status_eqb (v_status v) Bonded) then LHalt 2       (* bad state transition bondedToUnbonding *)
      else
        let '(c1, v1) := begin_unbonding (la_chain a) id v in
        let c2 := with_stk c1 (st_last_pow (stk c1) (delete id (last_pow (stk c1)))) in
        unbond_loop rest
          {| la_chain := c2; la_last := la_last a; la_upd := la_upd a ++ [(v_cons v1, 0)];
             la_count := la_count a; la_total := la_total a; la_to_bonded := la_to_bonded a - v_tokens v1 |}
    end
  end.

Inductive eb_res := EBOk (c : chain) (updates : list (Z * Z)) | EBHalt (e : Z).

Definition apply_valset_updates (c : chain) : eb_res :=
  let keys := sort_by pidx_le (pidx (stk c)) in
  let a0 := {| la_chain := c; la_last := last_pow (stk c); la_upd := []; la_count := 0; la_total := 0; la_to_bonded := 0 |} in
  match apply_loop keys (sp_max_validators (params (stk c))) a0 with
  | LHalt e => EBHalt e
  | LDone a1 =>
    match unbond_loop (sorted_keys (la_last a1)) a1 with
    | LHalt e => EBHalt e
    | LDone a2 =>
      let c2 := la_chain a2 in
      match (if la_to_bonded a2 =? 0 then Some (bk c2) else pool_transfer (bk c2) (la_to_bonded a2)) with
      | None => EBHalt 4
      | Some b =>
        let c3 := with_bk c2 b in
        let c4 := match la_upd a2 with
                  | [] => c3
                  | _ => with_stk c3 (st_last_total (stk c3) (la_total a2))
                  end in
        EBOk c4 (la_upd a2)
      end
    end
  end.

(* ---- UnbondAllMatureValidators ---- *)
Fixpoint mature_ids (ids : list Z) (c : chain) : option chain :=
  match ids with
  | [] => Some c
  | id :: rest =>
    match vals (stk c) !! id with
    | None => None                                       (* "validator in the unbonding queue was not found" *)
    | Some v =>
      if negb (status_eqb (v_status v) Unbonding) then None   (* "unexpected validator in unbonding queue" *)
      else
        let v' := set_status v Unbonded in
        let s1 := set_validator (stk c) id v' in
        let s2o :=
          if v_shares v' =? 0 then
            (* RemoveValidator *)
            if 0 <? v_tokens v' then None
            else Some (st_pidx (st_by_cons (st_vals s1 (delete id (vals s1))) (delete (v_cons v') (by_cons s1)))
                               (pidx_del (v_power v', id) (pidx s1)))
          else Some s1 in
        match s2o with
        | None => None
        | Some s2 =>
          let s3 := st_ubq s2 (ubq_delete (v_ubtime v') (v_ubheight v') id (ubq s2)) in
          mature_ids rest (with_stk c s3)
        end
    end
  end.

Fixpoint mature_slots (slots : list (Z * Z * list Z)) (c : chain) : option chain :=
  match slots with
  | [] => Some c
  | (t, h, ids) :: rest =>
    if (t <=? now c) && (h <=? height c) then
      match mature_ids ids c with
      | None => None
      | Some c' => mature_slots rest c'
      end
    else mature_slots rest c
  end.

Definition unbond_all_mature (c : chain) : option chain := mature_slots (sorted_slots (ubq (stk c))) c.

(* x/staking EndBlocker *)
Definition staking_end_block (c : chain) : eb_res :=
  match apply_valset_updates c with
  | EBHalt e => EBHalt e
  | EBOk c1 upd =>
    match unbond_all_mature c1 with
    | None => EBHalt 3
    | Some c2 => EBOk c2 upd
    end
  end.
