(* Ante.v — the three PoA ante decorators over message trees of unbounded depth and fan-out.
   Mirrors /repo/ante/{disable_staking,disable_withdraw_delegator_rewards,commission_limit}.go:
   loop over the messages in order, look inside message-carrying messages first, then classify
   the message itself, return the first error met. *)
Require Import Model.Base.

Inductive stk_kind := SCreateValidator | SDelegate | SUndelegate | SBeginRedelegate
                    | SCancelUnbonding | SUpdateParams.

(* Message-carrying message types registered in the application (census-checked, Tie/Registry.v). *)
Inductive wrapper := WAuthzExec | WGovSubmit | WGroupSubmit.

Inductive leaf :=
| LStaking (k : stk_kind)            (* the six x/staking messages PoA forbids *)
| LEditValidator (rate : option Z)   (* staking.MsgEditValidator; None = nil CommissionRate pointer *)
| LPoaCreate (rate : option Z)       (* poa.MsgCreateValidator; None = nil LegacyDec (field absent) *)
| LWithdrawReward                    (* distribution.MsgWithdrawDelegatorReward *)
| LOther.                            (* any other registered message *)

(* [unpack_ok = false]: the carrier's GetMessages()/GetMsgs() returns an error (an Any without a
   cached sdk.Msg); children are then never looked at. *)
Inductive msg :=
| Leaf (l : leaf)
| Wrap (w : wrapper) (unpack_ok : bool) (children : list msg).

Definition first_some {A B} (f : A -> option B) : list A -> option B :=
  fix go (l : list A) : option B :=
    match l with
    | [] => None
    | x :: xs => match f x with Some b => Some b | None => go xs end
    end.

(* error returned by a carrier whose nested messages do not unpack *)
Definition unpack_err (w : wrapper) : err :=
  match w with
  | WAuthzExec => ESdkInvalidRequest        (* authz: sdkerrors.ErrInvalidRequest.Wrapf *)
  | WGovSubmit | WGroupSubmit => EUndefined (* sdktx.GetMsgs: fmt.Errorf *)
  end.

Section Walkers.
  (* which carriers the decorator looks into *)
  Variable unwraps : wrapper -> bool.

  (* ---- MsgStakingFilterDecorator.hasInvalidStakingMsg ---- *)
  Fixpoint stk_walk (m : msg) : option err :=
    match m with
    | Leaf (LStaking _) => Some EPoaStakingNotAllowed
    | Leaf _ => None
    | Wrap w ok cs =>
        if unwraps w then
          if ok then first_some stk_walk cs else Some (unpack_err w)
        else None
    end.

  (* ---- MsgDisableWithdrawDelegatorRewards.hasWithdrawDelegatorRewardsMsg ---- *)
  Fixpoint wd_walk (m : msg) : option err :=
    match m with
    | Leaf LWithdrawReward => Some EPoaWithdrawNotAllowed
    | Leaf _ => None
    | Wrap w ok cs =>
        if unwraps w then
          if ok then first_some wd_walk cs else Some (unpack_err w)
        else None
    end.
End Walkers.

(* AnteHandle: height gate, then the walk over tx.GetMsgs() *)
Definition stk_decorator (unwraps : wrapper -> bool) (height : Z) (msgs : list msg) : option err :=
  if height <=? 1 then None else first_some (stk_walk unwraps) msgs.

Definition wd_decorator (unwraps : wrapper -> bool) (height : Z) (msgs : list msg) : option err :=
  if height <=? 1 then None else first_some (wd_walk unwraps) msgs.

(* ---- commission limit ---- *)
Inductive verdict := VPass | VReject (e : err) | VPanic.

(* rateCheck(source, low, high) *)
Definition rate_check (r lo hi : Z) : bool :=
  if (lo =? hi) && negb (r =? lo) then false
  else if (hi <? r) || (r <? lo) then false
  else true.

(* commission rate a message sets, if it is one of the two commission-carrying types:
   Some (Some r) = sets r ; Some None = commission-carrying type with nil rate ; None = other type *)
Definition comm_rate (l : leaf) : option (option Z) :=
  match l with
  | LEditValidator r => Some r
  | LPoaCreate r => Some r
  | _ => None
  end.

(* walk result: None = keep going, Some v = stop with v *)
Section Commission.
  Variable unwraps : wrapper -> bool.
  Variables lo hi : Z.

  (* current code: every commission-carrying message is checked; a nil rate is skipped *)
  Fixpoint comm_walk (m : msg) : option verdict :=
    match m with
    | Leaf l =>
        match comm_rate l with
        | Some (Some r) => if rate_check r lo hi then None else Some (VReject EUndefined)
        | _ => None
        end
    | Wrap w ok cs =>
        if unwraps w then
          if ok then first_some comm_walk cs else Some (VReject (unpack_err w))
        else None
    end.

  (* code before the repair: returns the result of the first commission-carrying message,
     dereferences a nil rate *)
  Fixpoint comm_walk_legacy (m : msg) : option verdict :=
    match m with
    | Leaf l =>
        match comm_rate l with
        | Some (Some r) => if rate_check r lo hi then Some VPass else Some (VReject EUndefined)
        | Some None => Some VPanic
        | None => None
        end
    | Wrap w ok cs =>
        if unwraps w then
          if ok then
            match first_some comm_walk_legacy cs with
            | Some VPass => None      (* recursion returned nil: the loop continues *)
            | other => other
            end
          else Some (VReject (unpack_err w))
        else None
    end.
End Commission.

Definition of_walk (o : option verdict) : verdict :=
  match o with None => VPass | Some v => v end.

Definition comm_decorator (unwraps : wrapper -> bool) (gentx_validation : bool) (lo hi : Z)
           (height : Z) (msgs : list msg) : verdict :=
  if negb gentx_validation && (height <=? 1) then VPass
  else of_walk (first_some (comm_walk unwraps lo hi) msgs).

Definition comm_decorator_legacy (unwraps : wrapper -> bool) (gentx_validation : bool) (lo hi : Z)
           (height : Z) (msgs : list msg) : verdict :=
  if negb gentx_validation && (height <=? 1) then VPass
  else of_walk (first_some (comm_walk_legacy unwraps lo hi) msgs).

(* ---- what the code at /repo does now (flipped together with the Go source; the correspondence
        check compares these with the running decorators) ---- *)
Definition unwraps_authz_only (w : wrapper) : bool :=
  match w with WAuthzExec => true | _ => false end.
Definition unwraps_all (w : wrapper) : bool := true.
