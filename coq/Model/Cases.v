(* Cases.v — the executable interface used by the correspondence check for the stateless
   functions: one [case] per implementation call, one [outcome] per result. *)
Require Import Model.Base Model.Ante Model.Validate Model.Current.

Inductive case :=
| CSetPowerValidate (addr_ok : bool) (power : Z)
| CStkDecorator (height : Z) (msgs : list msg)
| CWdDecorator (height : Z) (msgs : list msg)
| CCommDecorator (gentx : bool) (lo hi height : Z) (msgs : list msg)
| CCommissionValidate (rate mx chg : dec)
| CPoaCreateValidate (c : create_basic)
| CStakingCreateValidate (c : create_basic) (value_valid : bool) (value msd : Z)
| CEnsureLength (d : desc_lens)
| CParamsValidate (p : sparams).

Inductive outcome :=
| OPass
| OErr (codespace code : Z)
| OPanic
| OBool (b : bool).

Definition of_err (e : err) : outcome :=
  match e with EPanic => OPanic | _ => let '(cs, c) := err_code e in OErr cs c end.
Definition of_opt (o : option err) : outcome := match o with None => OPass | Some e => of_err e end.
Definition of_res {A} (r : res A) : outcome := match r with Ok _ => OPass | Err e => of_err e end.
Definition of_verdict (v : verdict) : outcome :=
  match v with VPass => OPass | VReject e => of_err e | VPanic => OPanic end.
Definition of_vres (v : vres) : outcome :=
  match v with VOk => OPass | VErr e => of_err e | VPanicked => OPanic end.

Definition run_case (c : case) : outcome :=
  match c with
  | CSetPowerValidate a p => of_res (cur_setpower_validate a p)
  | CStkDecorator h ms => of_opt (cur_stk_decorator h ms)
  | CWdDecorator h ms => of_opt (cur_wd_decorator h ms)
  | CCommDecorator g lo hi h ms => of_verdict (cur_comm_decorator g lo hi h ms)
  | CCommissionValidate r m c => of_vres (commission_validate r m c)
  | CPoaCreateValidate c => of_vres (poa_create_validate c)
  | CStakingCreateValidate c vv v msd => of_vres (staking_create_validate c vv v msd)
  | CEnsureLength d => OBool (ensure_length d)
  | CParamsValidate p => OBool (params_validate p)
  end.
