#!/bin/sh
# One-time build after a fresh restore, offline: Go harness (warm build cache), Coq development, extracted model.
set -e
cd /verif
export GOPROXY=off GOSUMDB=off GOTOOLCHAIN=local GOFLAGS=
unset GOWORK
mkdir -p work evidence replays
cp /repo/go.work.sum harness/go.work.sum
(cd harness && go build -tags verif -o bin/harness ./cmd/harness)
mkdir -p coq/Extracted
(cd harness && ./bin/harness factgen -out /verif/coq/Extracted)
(cd coq && coq_makefile -f _CoqProject -o Makefile && make -j16)
(cd extract && sh build.sh)
echo setup done
