#!/usr/bin/env python3
"""Writes MANIFEST.json from props.py (single source for what is claimed)."""
import json, sys, os
sys.path.insert(0, os.path.dirname(os.path.abspath(__file__)))
from props import PROPS, LEVELS, NOT_APPLICABLE

checks = []
for pid in sorted(PROPS):
    lv = LEVELS[pid]
    checks.append({
        "property_id": pid,
        "quick_cmd": "python3 check.py %s quick" % pid,
        "thorough_cmd": "python3 check.py %s thorough" % pid,
        "evidence_file": "/verif/evidence/%s.json" % pid,
        "replay_cmd_template": "python3 check.py %s --replay {path}" % pid,
        "engine": "coq-model+correspondence",
        "level_claimed": {"category": "proof", "text": lv["text"], "design_ref": lv.get("design_ref", "DESIGN.md §7 " + pid)},
        "level_note": lv["note"],
        "technique": lv["technique"],
    })
man = {
    "version": 1,
    "setup_cmd": "sh /verif/setup.sh",
    "hooks": {
        "guard": "verif",
        "enable": "go build -tags verif (no hook commits exist: every observation point is exported API)",
        "baseline_off_cmd": "cd /repo && for m in . ./simapp; do (cd $m && go test -vet=off -count=1 ./...); done",
        "source_commits": [],
        "add_only": True,
    },
    "engines": [{
        "name": "coq-model+correspondence", "path": "/verif/coq, /verif/extract, /verif/harness, /verif/check.py",
        "serves_properties": sorted(PROPS),
        "kind_free_text": "Coq 8.16.1 development (Gallina model of PoA + x/staking + x/slashing core, theorems per property) tied to /repo by a Go fact generator (Tie theorems) and a differential harness that runs the real SimApp and the OCaml-extracted model on the same generated inputs; property monitors on the implementation traces search for failing inputs",
    }],
    "checks": checks,
    "not_applicable": NOT_APPLICABLE,
    "notes": "See DESIGN.md. known_findings.json lists repaired (fixed:) and recorded (known) defects; fix commits are in /repo's history with messages starting 'fix:'.",
}
json.dump(man, open(os.path.join(os.path.dirname(os.path.abspath(__file__)), "MANIFEST.json"), "w"), indent=1)
print("MANIFEST.json: %d checks, %d not applicable" % (len(checks), len(NOT_APPLICABLE)))
