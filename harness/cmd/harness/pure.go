package main

import (
	"encoding/json"
	"fmt"
	"math/big"
	"math/rand"
	"os"
	"sort"
	"strings"
	"time"

	"cosmossdk.io/math"
	addresscodec "github.com/cosmos/cosmos-sdk/codec/address"
	codectypes "github.com/cosmos/cosmos-sdk/codec/types"
	"github.com/cosmos/cosmos-sdk/crypto/keys/ed25519"
	sdk "github.com/cosmos/cosmos-sdk/types"
	stakingtypes "github.com/cosmos/cosmos-sdk/x/staking/types"
	protov2 "google.golang.org/protobuf/proto"

	"github.com/strangelove-ventures/poa"
	poaante "github.com/strangelove-ventures/poa/ante"
)

// Rec is one executed case: the model term, what the implementation did, and the verdict of the
// property monitor (evaluated on the harness' own description of the input, never on the model).
type Rec struct {
	Prop       string   `json:"prop"`
	Kind       string   `json:"kind"`
	Case       string   `json:"case"`
	Impl       string   `json:"impl"`
	MonitorOK  bool     `json:"monitor_ok"`
	Sig        string   `json:"sig,omitempty"`
	Detail     string   `json:"detail,omitempty"`
	Nontrivial bool     `json:"nontrivial"`
	Tags       []string `json:"tags,omitempty"`
}

type mockTx struct{ msgs []sdk.Msg }

func (tx mockTx) GetMsgs() []sdk.Msg                    { return tx.msgs }
func (tx mockTx) GetMsgsV2() ([]protov2.Message, error) { return nil, nil }

func nextOK(ctx sdk.Context, tx sdk.Tx, simulate bool) (sdk.Context, error) { return ctx, nil }

func ctxAt(h int64) sdk.Context {
	ctx := sdk.Context{}
	hd := ctx.BlockHeader()
	hd.Height = h
	return ctx.WithBlockHeader(hd)
}

func runDecorator(d sdk.AnteDecorator, h int64, trees []*Tree) string {
	msgs := make([]sdk.Msg, len(trees))
	for i, t := range trees {
		msgs[i] = t.Msg()
	}
	err := catch(func() error {
		_, e := d.AnteHandle(ctxAt(h), mockTx{msgs}, false, nextOK)
		return e
	})
	return outcomeOf(err)
}

func treesSx(ts []*Tree) string {
	ss := make([]string, len(ts))
	for i, t := range ts {
		ss[i] = t.Sx()
	}
	return sxList(ss)
}

func anyTree(ts []*Tree, f func(*Tree) bool) bool {
	for _, t := range ts {
		if f(t) {
			return true
		}
	}
	return false
}

func viaSig(ts []*Tree, p func(*Tree) bool) string {
	for _, t := range ts {
		if path, ok := t.pathTo(p); ok {
			set := map[string]bool{}
			for _, w := range path {
				set[w] = true
			}
			var ws []string
			for w := range set {
				ws = append(ws, w)
			}
			sort.Strings(ws)
			if len(ws) == 0 {
				return "top-level"
			}
			return strings.Join(ws, "+")
		}
	}
	return "none"
}

var heights = []int64{0, 1, 2, 2, 2, 3, 10, 1000000}

func maxDepth(ts []*Tree) int {
	d := 0
	for _, t := range ts {
		if x := t.depth(); x > d {
			d = x
		}
	}
	return d
}

// firstInteresting: index of the first top-level tree containing a leaf satisfying p
func posOf(ts []*Tree, p func(*Tree) bool) int {
	for i, t := range ts {
		if t.anyLeaf(p) {
			return i
		}
	}
	return -1
}

func evalFilter(which string, h int64, ts []*Tree) Rec {
	prop, kindName, code := "C07", "CStkDecorator", "err 0 1"
	var dec sdk.AnteDecorator = poaante.NewPOADisableStakingDecorator()
	pred := isBlockedStaking
	if which == "wd" {
		prop, kindName, code = "C08", "CWdDecorator", "err 0 5"
		dec = poaante.NewPOADisableWithdrawDelegatorRewards()
		pred = isWithdraw
	}
	impl := runDecorator(dec, h, ts)
	rec := Rec{Prop: prop, Kind: which, Case: fmt.Sprintf("(%s %d %s)", kindName, h, treesSx(ts)), Impl: impl, MonitorOK: true}
	has := anyTree(ts, func(t *Tree) bool { return t.anyLeaf(pred) })
	bad := anyTree(ts, func(t *Tree) bool { return t.hasBadUnpack() })
	switch {
	case h <= 1:
		if impl != "pass" {
			rec.MonitorOK, rec.Sig, rec.Detail = false, prop+"/rejected-at-genesis-height", "height<=1 must pass"
		}
	case has && !bad:
		if impl != code {
			rec.MonitorOK, rec.Sig = false, prop+"/not-rejected/via="+viaSig(ts, pred)
			rec.Detail = "tree contains a forbidden message, expected " + code
		}
	case has && bad:
		if impl == "pass" || impl == "panic" {
			rec.MonitorOK, rec.Sig = false, prop+"/not-rejected/via="+viaSig(ts, pred)
		}
	case !has && !bad:
		if impl != "pass" {
			rec.MonitorOK, rec.Sig, rec.Detail = false, prop+"/false-reject", "no forbidden message in the tree"
		}
	}
	d := maxDepth(ts)
	rec.Nontrivial = h > 1 && has && d >= 2 && (posOf(ts, pred) != 0 || len(ts) == 1)
	rec.Tags = []string{fmt.Sprintf("depth=%d", d), fmt.Sprintf("h=%d", h), fmt.Sprintf("has=%v", has), fmt.Sprintf("bad=%v", bad), fmt.Sprintf("nmsgs=%d", len(ts))}
	return rec
}

func genFilterCases(r *rand.Rand, n int, which string) []Rec {
	var out []Rec
	bias := "stk"
	if which == "wd" {
		bias = "wd"
	}
	g := &treeGen{r: r, rates: []*big.Int{big.NewInt(0), ten18}, leafBias: bias}
	for i := 0; i < n; i++ {
		g.pBad = pick(r, []float64{0, 0, 0, 0.05})
		g.pInterest = pick(r, []float64{0, 0.02, 0.1, 0.3})
		ts := g.msgs()
		out = append(out, evalFilter(which, pick(r, heights), ts))
	}
	return out
}

type commCfg struct {
	lo, hi *big.Int
}

func mulFrac(num, den int64) *big.Int {
	x := new(big.Int).Mul(ten18, big.NewInt(num))
	return x.Quo(x, big.NewInt(den))
}

func ratesAround(c commCfg) []*big.Int {
	one := big.NewInt(1)
	rs := []*big.Int{big.NewInt(0), new(big.Int).Set(ten18), new(big.Int).Add(ten18, one), big.NewInt(-1),
		new(big.Int).Set(c.lo), new(big.Int).Sub(c.lo, one), new(big.Int).Add(c.lo, one),
		new(big.Int).Set(c.hi), new(big.Int).Sub(c.hi, one), new(big.Int).Add(c.hi, one)}
	mid := new(big.Int).Add(c.lo, c.hi)
	mid.Quo(mid, big.NewInt(2))
	// in-range values are over-represented so that multi-message transactions reach later messages
	rs = append(rs, mid, mid, mid, new(big.Int).Set(c.lo), new(big.Int).Set(c.hi), mid)
	return rs
}

func inRange(r, lo, hi *big.Int) bool {
	if lo.Cmp(hi) == 0 {
		return r.Cmp(lo) == 0
	}
	return r.Cmp(lo) >= 0 && r.Cmp(hi) <= 0
}

func collectRated(ts []*Tree, f func(t *Tree)) {
	for _, t := range ts {
		if t.Wrap == "" {
			if t.Leaf == "edit" || t.Leaf == "poacreate" {
				f(t)
			}
		} else {
			collectRated(t.Children, f)
		}
	}
}

func evalComm(gentx bool, lo, hi *big.Int, h int64, ts []*Tree) Rec {
	cfg := commCfg{lo, hi}
	dec := poaante.NewCommissionLimitDecorator(gentx, decOf(cfg.lo), decOf(cfg.hi))
	impl := runDecorator(dec, h, ts)
	rec := Rec{Prop: "C09", Kind: "comm", Impl: impl, MonitorOK: true,
		Case: fmt.Sprintf("(CCommDecorator %s %s %s %d %s)", sxBool(gentx), cfg.lo, cfg.hi, h, treesSx(ts))}
	nRated, nBadRate, nNil, firstBadIdx, idx := 0, 0, 0, -1, 0
	collectRated(ts, func(t *Tree) {
		if t.Rate == nil {
			nNil++
		} else {
			nRated++
			if !inRange(t.Rate, cfg.lo, cfg.hi) {
				nBadRate++
				if firstBadIdx < 0 {
					firstBadIdx = idx
				}
			}
		}
		idx++
	})
	bad := anyTree(ts, func(t *Tree) bool { return t.hasBadUnpack() })
	exempt := !gentx && h <= 1
	via := viaSig(ts, func(t *Tree) bool {
		return (t.Leaf == "edit" || t.Leaf == "poacreate") && t.Rate != nil && !inRange(t.Rate, cfg.lo, cfg.hi)
	})
	switch {
	case impl == "panic":
		rec.MonitorOK, rec.Sig, rec.Detail = false, "C09/panic", "the check crashed"
		if nNil > 0 {
			rec.Sig = "C09/panic/nil-rate"
		}
	case exempt:
		if impl != "pass" {
			rec.MonitorOK, rec.Sig = false, "C09/rejected-exempt-genesis-tx"
		}
	case nBadRate > 0:
		if impl == "pass" {
			rec.MonitorOK = false
			if firstBadIdx > 0 && (via == "top-level" || via == "WAuthzExec") {
				rec.Sig = "C09/accepted-out-of-range/after-earlier-commission-message"
			} else {
				rec.Sig = "C09/accepted-out-of-range/via=" + via
			}
		}
	case !bad:
		if impl != "pass" {
			rec.MonitorOK, rec.Sig, rec.Detail = false, "C09/false-reject", "every rate set is within range"
		}
	}
	rec.Nontrivial = !exempt && (nRated >= 2 || nNil > 0)
	rec.Tags = []string{fmt.Sprintf("depth=%d", maxDepth(ts)), fmt.Sprintf("h=%d", h), fmt.Sprintf("rated=%d", nRated), fmt.Sprintf("out=%d", nBadRate), fmt.Sprintf("nil=%d", nNil), fmt.Sprintf("gentx=%v", gentx), fmt.Sprintf("eq=%v", cfg.lo.Cmp(cfg.hi) == 0)}
	return rec
}

func genCommCases(r *rand.Rand, n int) []Rec {
	var out []Rec
	cfgs := []commCfg{
		{mulFrac(1, 10), mulFrac(1, 2)}, {mulFrac(15, 100), mulFrac(15, 100)}, {big.NewInt(0), new(big.Int).Set(ten18)},
		{big.NewInt(0), big.NewInt(0)}, {mulFrac(1, 2), mulFrac(1, 10)}, {mulFrac(5, 100), mulFrac(5, 100)},
	}
	for i := 0; i < n; i++ {
		cfg := pick(r, cfgs)
		gentx := r.Intn(2) == 0
		g := &treeGen{r: r, rates: ratesAround(cfg), leafBias: "comm"}
		g.pBad = pick(r, []float64{0, 0, 0, 0.05})
		g.pInterest = pick(r, []float64{0.1, 0.3, 0.6})
		ts := g.msgs()
		out = append(out, evalComm(gentx, cfg.lo, cfg.hi, pick(r, heights), ts))
	}
	return out
}

// ---- C14: MsgSetPower.Validate ----

var valCodec = addresscodec.NewBech32Codec("cosmosvaloper")

func goodValAddr(r *rand.Rand) string {
	b := make([]byte, 20)
	r.Read(b)
	s, _ := valCodec.BytesToString(b)
	return s
}

func badAddr(r *rand.Rand) string {
	b := make([]byte, 20)
	r.Read(b)
	return pick(r, []string{"", "foo", sdk.AccAddress(b).String(), "cosmosvaloper1qqqq", " "})
}

func powerBoundaries(r *rand.Rand) uint64 {
	bs := []uint64{0, 1, 999_999, 1_000_000, 1_000_001, 1_999_999, 2_000_000, 12_345_678, 1 << 53, 1<<53 + 1, 1<<53 - 1,
		1<<63 - 1, 1 << 63, 1<<63 + 1, 1<<64 - 1, 1<<64 - 2, 9_223_372_036_854_000_000, 10_000_000_000_000}
	if r.Intn(3) == 0 {
		return r.Uint64()
	}
	if r.Intn(3) == 0 {
		return uint64(r.Int63n(100_000_000_000))
	}
	return pick(r, bs)
}

func evalSetPower(ok bool, addr string, p uint64) Rec {
	maxI64 := uint64(1<<63 - 1)
	m := poa.MsgSetPower{Sender: "x", ValidatorAddress: addr, Power: p}
	impl := outcomeOf(catch(func() error { return m.Validate(valCodec) }))
	rec := Rec{Prop: "C14", Kind: "setpower_validate", Impl: impl, MonitorOK: true,
		Case: fmt.Sprintf("(CSetPowerValidate %s %d)", sxBool(ok), p)}
	if ok {
		switch {
		case p < 1_000_000:
			if impl != "err 0 2" {
				rec.MonitorOK, rec.Sig = false, "C14/below-minimum-not-rejected"
			}
		case p > maxI64:
			if impl == "pass" || impl == "panic" {
				rec.MonitorOK, rec.Sig = false, "C14/power-above-int64-accepted"
			}
		default:
			if impl != "pass" {
				rec.MonitorOK, rec.Sig = false, "C14/valid-power-rejected"
			}
		}
	} else if impl == "pass" {
		rec.MonitorOK, rec.Sig = false, "C14/bad-address-accepted"
	}
	rec.Nontrivial = ok && (p >= 999_999)
	rec.Tags = []string{fmt.Sprintf("addr=%v", ok)}
	return rec
}

func genSetPowerValidate(r *rand.Rand, n int) []Rec {
	var out []Rec
	for i := 0; i < n; i++ {
		ok := r.Intn(5) != 0
		addr := goodValAddr(r)
		if !ok {
			addr = badAddr(r)
		}
		out = append(out, evalSetPower(ok, addr, powerBoundaries(r)))
	}
	return out
}

// evalCaseSx re-executes a stored case (corpus, replay) on the current tree.
func evalCaseSx(line string) (Rec, error) {
	x, err := parseSx(line)
	if err != nil {
		return Rec{}, err
	}
	i64 := func(a *Sx) int64 { var v int64; fmt.Sscan(a.Atom, &v); return v }
	switch x.head() {
	case "CStkDecorator", "CWdDecorator":
		ts, err := treesFromSx(x.arg(1))
		if err != nil {
			return Rec{}, err
		}
		which := "stk"
		if x.head() == "CWdDecorator" {
			which = "wd"
		}
		return evalFilter(which, i64(x.arg(0)), ts), nil
	case "CCommDecorator":
		ts, err := treesFromSx(x.arg(4))
		if err != nil {
			return Rec{}, err
		}
		return evalComm(x.arg(0).boolean(), bigFromStr(x.arg(1).Atom), bigFromStr(x.arg(2).Atom), i64(x.arg(3)), ts), nil
	case "CSetPowerValidate":
		ok := x.arg(0).boolean()
		addr := "cosmosvaloper1qqqqqqqqqqqqqqqqqqqqqqqqqqqqqqqq7cldvs"
		if b, err := valCodec.BytesToString(make([]byte, 20)); err == nil {
			addr = b
		}
		if !ok {
			addr = "foo"
		}
		var p uint64
		fmt.Sscan(x.arg(1).Atom, &p)
		return evalSetPower(ok, addr, p), nil
	}
	return Rec{}, fmt.Errorf("case kind %q cannot be replayed", x.head())
}

// ---- C15: validation parity with x/staking ----

func decChoices() []*big.Int {
	one := big.NewInt(1)
	return []*big.Int{nil, big.NewInt(0), big.NewInt(-1), one, new(big.Int).Set(ten18), new(big.Int).Add(ten18, one), new(big.Int).Sub(ten18, one),
		mulFrac(1, 10), mulFrac(1, 2), mulFrac(2, 10), new(big.Int).Add(mulFrac(1, 2), one), new(big.Int).Sub(mulFrac(1, 2), one),
		new(big.Int).Mul(ten18, big.NewInt(2)), new(big.Int).Neg(ten18)}
}

func optDec(b *big.Int) math.LegacyDec {
	if b == nil {
		return math.LegacyDec{}
	}
	return decOf(b)
}

func genCommissionValidate(r *rand.Rand, n int) []Rec {
	var out []Rec
	ch := decChoices()
	for i := 0; i < n; i++ {
		rate, mx, chg := pick(r, ch), pick(r, ch), pick(r, ch)
		if r.Intn(3) == 0 { // mostly-valid stream
			mx = pick(r, []*big.Int{mulFrac(1, 2), ten18})
			rate = pick(r, []*big.Int{mulFrac(1, 10), mulFrac(1, 2), big.NewInt(0)})
			chg = pick(r, []*big.Int{mulFrac(1, 10), big.NewInt(0), mulFrac(1, 2)})
		}
		pc := poa.CommissionRates{Rate: optDec(rate), MaxRate: optDec(mx), MaxChangeRate: optDec(chg)}
		sc := stakingtypes.CommissionRates{Rate: optDec(rate), MaxRate: optDec(mx), MaxChangeRate: optDec(chg)}
		impl := outcomeOf(catch(func() error { return pc.Validate() }))
		ref := outcomeOf(catch(func() error { return sc.Validate() }))
		rec := Rec{Prop: "C15", Kind: "commission_validate", Impl: impl, MonitorOK: impl == ref,
			Case: fmt.Sprintf("(CCommissionValidate %s %s %s)", sxOptBig(rate), sxOptBig(mx), sxOptBig(chg))}
		if !rec.MonitorOK {
			rec.Sig, rec.Detail = "C15/commission-rule-differs-from-staking", "x/staking: "+ref
		}
		rec.Nontrivial = impl != "pass" && impl != "panic"
		rec.Tags = []string{"out=" + impl}
		out = append(out, rec)
	}
	return out
}

// wideString: a string of exactly n bytes made of multi-byte characters (3-byte ones, padded with a 2-byte one and ASCII)
func wideString(n int) string {
	var b strings.Builder
	for n >= 3 && n != 4 {
		b.WriteString("验")
		n -= 3
	}
	for n >= 2 {
		b.WriteString("é")
		n -= 2
	}
	if n == 1 {
		b.WriteString("a")
	}
	return b.String()
}

func lensChoice(r *rand.Rand, max int) int {
	return pick(r, []int{0, 0, 1, 5, max - 1, max, max, max + 1, max + 50})
}

func genCreateValidate(r *rand.Rand, n int) []Rec {
	var out []Rec
	ch := decChoices()
	pk := ed25519.GenPrivKeyFromSecret([]byte("k")).PubKey()
	pkAny, _ := codectypes.NewAnyWithValue(pk)
	for i := 0; i < n; i++ {
		addrOK := r.Intn(6) != 0
		hasPK := r.Intn(6) != 0
		lens := [5]int{lensChoice(r, 70), lensChoice(r, 3000), lensChoice(r, 140), lensChoice(r, 140), lensChoice(r, 280)}
		if r.Intn(8) == 0 {
			lens = [5]int{}
		}
		rate, mx, chg := pick(r, ch), pick(r, ch), pick(r, ch)
		if r.Intn(2) == 0 {
			mx = pick(r, []*big.Int{mulFrac(1, 2), ten18})
			rate = pick(r, []*big.Int{mulFrac(1, 10), mulFrac(1, 2), big.NewInt(0)})
			chg = pick(r, []*big.Int{mulFrac(1, 10), big.NewInt(0), mulFrac(1, 2)})
		}
		if r.Intn(12) == 0 {
			rate, mx, chg = nil, nil, nil
		}
		addr := goodValAddr(r)
		if !addrOK {
			addr = badAddr(r)
		}
		var anyPK *codectypes.Any
		if hasPK {
			anyPK = pkAny
		}
		// lengths are byte lengths (what x/staking limits); a third of the cases spell the fields with two- and
		// three-byte characters, so that a byte length and a character count differ
		wide := r.Intn(3) == 0
		mk := func(n int) string { return strings.Repeat("a", n) }
		if wide {
			mk = wideString
		}
		pm := poa.MsgCreateValidator{
			Description:      poa.Description{Moniker: mk(lens[0]), Identity: mk(lens[1]), Website: mk(lens[2]), SecurityContact: mk(lens[3]), Details: mk(lens[4])},
			Commission:       poa.CommissionRates{Rate: optDec(rate), MaxRate: optDec(mx), MaxChangeRate: optDec(chg)},
			MinSelfDelegation: math.NewInt(int64(r.Intn(5))), ValidatorAddress: addr, Pubkey: anyPK,
		}
		sm := stakingtypes.MsgCreateValidator{
			Description:       stakingtypes.Description{Moniker: mk(lens[0]), Identity: mk(lens[1]), Website: mk(lens[2]), SecurityContact: mk(lens[3]), Details: mk(lens[4])},
			Commission:        stakingtypes.CommissionRates{Rate: optDec(rate), MaxRate: optDec(mx), MaxChangeRate: optDec(chg)},
			MinSelfDelegation: math.NewInt(1), ValidatorAddress: addr, Pubkey: anyPK, Value: sdk.NewInt64Coin("stake", 1_000_000),
		}
		impl := outcomeOf(catch(func() error { return pm.Validate(valCodec) }))
		ref := outcomeOf(catch(func() error { return sm.Validate(valCodec) }))
		cb := fmt.Sprintf("(Build_create_basic %s %s (Build_desc_lens %d %d %d %d %d) %s %s %s)", sxBool(addrOK), sxBool(hasPK),
			lens[0], lens[1], lens[2], lens[3], lens[4], sxOptBig(rate), sxOptBig(mx), sxOptBig(chg))
		rec := Rec{Prop: "C15", Kind: "poa_create_validate", Impl: impl, MonitorOK: impl == ref, Case: "(CPoaCreateValidate " + cb + ")"}
		if !rec.MonitorOK {
			rec.Sig, rec.Detail = "C15/validate-differs-from-staking", "x/staking: "+ref
		}
		rec.Nontrivial = impl != "pass"
		rec.Tags = []string{"out=" + impl}
		out = append(out, rec)
		// the staking rule itself, against the model's copy of it
		out = append(out, Rec{Prop: "C15", Kind: "staking_create_validate", Impl: ref, MonitorOK: true,
			Case: "(CStakingCreateValidate " + cb + " true 1000000 1)", Nontrivial: ref != "pass", Tags: []string{"out=" + ref}})
		// EnsureLength parity
		_, e1 := pm.Description.EnsureLength()
		_, e2 := sm.Description.EnsureLength()
		out = append(out, Rec{Prop: "C15", Kind: "ensure_length", Impl: sxBool(e1 == nil), MonitorOK: (e1 == nil) == (e2 == nil),
			Sig:  map[bool]string{true: "", false: "C15/length-limit-differs-from-staking"}[(e1 == nil) == (e2 == nil)],
			Case: fmt.Sprintf("(CEnsureLength (Build_desc_lens %d %d %d %d %d))", lens[0], lens[1], lens[2], lens[3], lens[4]), Nontrivial: e1 != nil})
	}
	return out
}

// ---- C16: stakingtypes.Params.Validate against the model's copy ----

type paramTuple struct {
	Unbonding  int64 // ns
	MaxVals    uint32
	MaxEntries uint32
	Hist       uint32
	Denom      string
	MinComm    *big.Int
}

func (p paramTuple) denomOK() bool {
	return strings.TrimSpace(p.Denom) != "" && sdk.ValidateDenom(p.Denom) == nil
}

func (p paramTuple) denomID() int {
	if p.Denom == "stake" {
		return 0
	}
	return 1
}

func (p paramTuple) Sx() string {
	return fmt.Sprintf("(Build_sparams %d %d %d %d %s %d %s)", p.Unbonding, p.MaxVals, p.MaxEntries, p.Hist, sxBool(p.denomOK()), p.denomID(), sxOptBig(p.MinComm))
}

func genParamTuple(r *rand.Rand) paramTuple {
	p := paramTuple{Unbonding: int64(30 * time.Second), MaxVals: 100, MaxEntries: 7, Hist: 10000, Denom: "stake", MinComm: big.NewInt(0)}
	k := r.Intn(4)
	for i := 0; i < k; i++ {
		switch r.Intn(6) {
		case 0:
			p.Unbonding = pick(r, []int64{0, -1, 1, int64(time.Second), int64(5 * time.Second), int64(21 * 24 * time.Hour), -int64(time.Hour), 1<<63 - 1})
		case 1:
			p.MaxVals = pick(r, []uint32{0, 1, 2, 3, 100, 1<<32 - 1})
		case 2:
			p.MaxEntries = pick(r, []uint32{0, 1, 7, 1<<32 - 1})
		case 3:
			p.Hist = pick(r, []uint32{0, 1, 10000, 1<<32 - 1})
		case 4:
			p.Denom = pick(r, []string{"", " ", "stake", "utoken", "1bad", "a", "ab", "token!"})
		case 5:
			p.MinComm = pick(r, []*big.Int{nil, big.NewInt(0), big.NewInt(-1), new(big.Int).Set(ten18), new(big.Int).Add(ten18, big.NewInt(1)), mulFrac(5, 100)})
		}
	}
	return p
}

func (p paramTuple) staking() stakingtypes.Params {
	return stakingtypes.Params{UnbondingTime: time.Duration(p.Unbonding), MaxValidators: p.MaxVals, MaxEntries: p.MaxEntries,
		HistoricalEntries: p.Hist, BondDenom: p.Denom, MinCommissionRate: optDec(p.MinComm)}
}

func genParamsValidate(r *rand.Rand, n int) []Rec {
	var out []Rec
	for i := 0; i < n; i++ {
		p := genParamTuple(r)
		err := catch(func() error { return p.staking().Validate() })
		out = append(out, Rec{Prop: "C16", Kind: "params_validate", Impl: sxBool(err == nil), MonitorOK: true,
			Case: "(CParamsValidate " + p.Sx() + ")", Nontrivial: err != nil})
	}
	return out
}

func writeRecs(path string, recs []Rec) error {
	f, err := os.Create(path)
	if err != nil {
		return err
	}
	defer f.Close()
	enc := json.NewEncoder(f)
	for _, r := range recs {
		if err := enc.Encode(r); err != nil {
			return err
		}
	}
	return nil
}

func cmdPure(args []string) error {
	var seed int64 = 1
	n := 2000
	kinds := "stk,wd,comm,setpower,commission,create,params"
	out := "pure.jsonl"
	corpus := ""
	for i := 0; i+1 < len(args); i += 2 {
		switch args[i] {
		case "-seed":
			fmt.Sscan(args[i+1], &seed)
		case "-n":
			fmt.Sscan(args[i+1], &n)
		case "-kinds":
			kinds = args[i+1]
		case "-out":
			out = args[i+1]
		case "-corpus":
			corpus = args[i+1]
		}
	}
	var recs []Rec
	if corpus != "" {
		if data, err := os.ReadFile(corpus); err == nil {
			for _, line := range strings.Split(string(data), "\n") {
				line = strings.TrimSpace(line)
				if line == "" || line[0] == '#' {
					continue
				}
				rec, err := evalCaseSx(line)
				if err != nil {
					return fmt.Errorf("corpus %q: %w", line, err)
				}
				keep := false
				for _, k := range strings.Split(kinds, ",") {
					keep = keep || rec.Kind == k || (k == "setpower" && rec.Kind == "setpower_validate")
				}
				if keep {
					rec.Tags = append(rec.Tags, "corpus")
					recs = append(recs, rec)
				}
			}
		}
	}
	for _, k := range strings.Split(kinds, ",") {
		r := rand.New(rand.NewSource(seed*1000003 + int64(len(k))*7919 + int64(k[0])))
		switch k {
		case "stk", "wd":
			recs = append(recs, genFilterCases(r, n, k)...)
		case "comm":
			recs = append(recs, genCommCases(r, n)...)
		case "setpower":
			recs = append(recs, genSetPowerValidate(r, n)...)
		case "commission":
			recs = append(recs, genCommissionValidate(r, n)...)
		case "create":
			recs = append(recs, genCreateValidate(r, n)...)
		case "params":
			recs = append(recs, genParamsValidate(r, n)...)
		case "convert":
			recs = append(recs, genConvert(r, n)...)
		default:
			return fmt.Errorf("unknown kind %q", k)
		}
	}
	return writeRecs(out, recs)
}
