package main

import (
	"fmt"
	"math/big"
	"math/rand"
	"reflect"
	"strings"
	"time"

	"cosmossdk.io/math"
	dbm "github.com/cosmos/cosmos-db"
	"github.com/cosmos/cosmos-sdk/crypto/keys/ed25519"
	"github.com/cosmos/cosmos-sdk/crypto/keys/secp256k1"
	cryptotypes "github.com/cosmos/cosmos-sdk/crypto/types"
	sdk "github.com/cosmos/cosmos-sdk/types"
	stakingtypes "github.com/cosmos/cosmos-sdk/x/staking/types"

	"github.com/strangelove-ventures/poa"
	poamodule "github.com/strangelove-ventures/poa/module"
)

func randStr(r *rand.Rand, max int) string {
	n := pick(r, []int{0, 1, max / 2, max})
	b := make([]byte, n)
	for i := range b {
		b[i] = byte('a' + r.Intn(26))
	}
	return string(b)
}

func randDec(r *rand.Rand) math.LegacyDec {
	b := new(big.Int).Rand(r, ten18)
	return math.LegacyNewDecFromBigIntWithPrec(b, 18)
}

func randValidator(r *rand.Rand) (stakingtypes.Validator, cryptotypes.PubKey) {
	var pk cryptotypes.PubKey
	seed := make([]byte, 32)
	r.Read(seed)
	if r.Intn(2) == 0 {
		pk = ed25519.GenPrivKeyFromSecret(seed).PubKey()
	} else {
		pk = secp256k1.GenPrivKeyFromSecret(seed).PubKey()
	}
	addr := make([]byte, 20)
	r.Read(addr)
	tokens, _ := math.NewIntFromString(pick(r, []string{"0", "1", "1000000", "9223372036854775807", "340282366920938463463374607431768211455", fmt.Sprint(r.Int63())}))
	shares := math.LegacyNewDecFromInt(tokens).Add(randDec(r))
	v := stakingtypes.Validator{
		OperatorAddress: sdk.ValAddress(addr).String(), ConsensusPubkey: mustAny(pk), Jailed: r.Intn(2) == 0,
		Status: stakingtypes.BondStatus(r.Intn(4)), Tokens: tokens, DelegatorShares: shares,
		Description:     stakingtypes.NewDescription(randStr(r, 70), randStr(r, 3000), randStr(r, 140), randStr(r, 140), randStr(r, 280)),
		UnbondingHeight: r.Int63(), UnbondingTime: time.Unix(r.Int63n(4e9), r.Int63n(1e9)).UTC(),
		Commission:        stakingtypes.NewCommissionWithTime(randDec(r), randDec(r), randDec(r), time.Unix(r.Int63n(4e9), 0).UTC()),
		MinSelfDelegation: math.NewInt(1 + r.Int63n(1e9)), UnbondingOnHoldRefCount: r.Int63n(5),
	}
	for i := r.Intn(4); i > 0; i-- {
		v.UnbondingIds = append(v.UnbondingIds, r.Uint64())
	}
	return v, pk
}

// listedFieldsEqual: every field the property lists (all but the commission's update time).
func listedFieldsEqual(a, b stakingtypes.Validator) string {
	var diffs []string
	chk := func(name string, x, y interface{}) {
		if !reflect.DeepEqual(x, y) {
			diffs = append(diffs, name)
		}
	}
	chk("OperatorAddress", a.OperatorAddress, b.OperatorAddress)
	if (a.ConsensusPubkey == nil) != (b.ConsensusPubkey == nil) || (a.ConsensusPubkey != nil && (a.ConsensusPubkey.TypeUrl != b.ConsensusPubkey.TypeUrl || string(a.ConsensusPubkey.Value) != string(b.ConsensusPubkey.Value))) {
		diffs = append(diffs, "ConsensusPubkey")
	}
	chk("Jailed", a.Jailed, b.Jailed)
	chk("Status", a.Status, b.Status)
	chk("Tokens", a.Tokens.String(), b.Tokens.String())
	chk("DelegatorShares", a.DelegatorShares.String(), b.DelegatorShares.String())
	chk("Description", a.Description, b.Description)
	chk("UnbondingHeight", a.UnbondingHeight, b.UnbondingHeight)
	if !a.UnbondingTime.Equal(b.UnbondingTime) {
		diffs = append(diffs, "UnbondingTime")
	}
	chk("Commission.Rate", a.Commission.Rate.String(), b.Commission.Rate.String())
	chk("Commission.MaxRate", a.Commission.MaxRate.String(), b.Commission.MaxRate.String())
	chk("Commission.MaxChangeRate", a.Commission.MaxChangeRate.String(), b.Commission.MaxChangeRate.String())
	chk("MinSelfDelegation", a.MinSelfDelegation.String(), b.MinSelfDelegation.String())
	chk("UnbondingOnHoldRefCount", a.UnbondingOnHoldRefCount, b.UnbondingOnHoldRefCount)
	if len(a.UnbondingIds) != len(b.UnbondingIds) {
		diffs = append(diffs, "UnbondingIds")
	} else {
		for i := range a.UnbondingIds {
			if a.UnbondingIds[i] != b.UnbondingIds[i] {
				diffs = append(diffs, "UnbondingIds")
				break
			}
		}
	}
	return strings.Join(diffs, ",")
}

func genConvert(r *rand.Rand, n int) []Rec {
	var out []Rec
	keys := newKeys()
	c, _, err := NewChain(keys, defaultGenesis())
	if err != nil {
		panic(err)
	}
	ctx := c.Ctx()
	var stored []stakingtypes.Validator
	for i := 0; i < n; i++ {
		v, pk := randValidator(r)
		rec := Rec{Prop: "C17", Kind: "convert", MonitorOK: true, Impl: "ok", Nontrivial: len(v.UnbondingIds) > 0 && v.Description.Moniker != "" && v.Description.Details != "" && !v.Tokens.IsZero()}
		// staking -> poa -> staking
		back := poa.ConvertPOAToStaking(poa.ConvertStakingToPOA(v))
		if d := listedFieldsEqual(v, back); d != "" {
			rec.MonitorOK, rec.Sig, rec.Detail, rec.Impl = false, "C17/conversion-loses-field:"+d, v.OperatorAddress, "lost"
		}
		// poa -> staking -> poa
		p := poa.ConvertStakingToPOA(v)
		p2 := poa.ConvertStakingToPOA(poa.ConvertPOAToStaking(p))
		if d := listedFieldsEqual(poa.ConvertPOAToStaking(p), poa.ConvertPOAToStaking(p2)); d != "" {
			rec.MonitorOK, rec.Sig, rec.Impl = false, "C17/poa-roundtrip-loses-field:"+d, "lost"
		}
		// pending store round trip through the real codec (every 20th record; the list is kept)
		if i%20 == 0 && len(stored) < 40 {
			if err := c.App.POAKeeper.AddPendingValidator(ctx, v, pk); err != nil {
				rec.MonitorOK, rec.Sig, rec.Detail = false, "C17/pending-store-rejects-record", err.Error()
			} else {
				stored = append(stored, v)
			}
		}
		rec.Tags = []string{fmt.Sprintf("keytype=%s", pk.Type()), fmt.Sprintf("ubids=%d", len(v.UnbondingIds))}
		out = append(out, rec)
	}
	// load the list back: same entries, same order, usable keys
	rec := Rec{Prop: "C17", Kind: "convert", MonitorOK: true, Impl: "ok", Nontrivial: true, Tags: []string{"store-roundtrip"}}
	pend, err := c.App.POAKeeper.GetPendingValidators(ctx)
	if err != nil || len(pend.Validators) != len(stored) {
		rec.MonitorOK, rec.Sig = false, "C17/pending-store-length"
	} else {
		for i, pv := range pend.Validators {
			if err := pv.UnpackInterfaces(c.App.InterfaceRegistry()); err != nil {
				rec.MonitorOK, rec.Sig = false, "C17/pending-key-does-not-unpack"
				break
			}
			if d := listedFieldsEqual(stored[i], poa.ConvertPOAToStaking(pv)); d != "" {
				rec.MonitorOK, rec.Sig = false, "C17/pending-store-loses-field:"+d
				break
			}
		}
	}
	out = append(out, rec)
	// genesis export -> JSON -> validate -> import into a fresh app -> pending query
	rec2 := Rec{Prop: "C17", Kind: "convert", MonitorOK: true, Impl: "ok", Nontrivial: true, Tags: []string{"genesis-roundtrip"}}
	func() {
		defer func() {
			if x := recover(); x != nil {
				rec2.MonitorOK, rec2.Sig, rec2.Detail = false, "C17/genesis-roundtrip-panics", fmt.Sprint(x)
			}
		}()
		am := poamodule.NewAppModule(c.App.AppCodec(), c.App.POAKeeper)
		js := am.ExportGenesis(ctx, c.App.AppCodec())
		if err := am.ValidateGenesis(c.App.AppCodec(), nil, js); err != nil {
			rec2.MonitorOK, rec2.Sig, rec2.Detail = false, "C17/exported-genesis-does-not-validate", err.Error()
			return
		}
		app2 := newApp(dbm.NewMemDB())
		c2 := &Chain{App: app2, Keys: keys, Height: 0}
		_ = c2
		k2, _, err := NewChain(keys, defaultGenesis())
		if err != nil {
			rec2.MonitorOK, rec2.Sig = false, "C17/second-chain"
			return
		}
		ctx2 := k2.Ctx()
		am2 := poamodule.NewAppModule(k2.App.AppCodec(), k2.App.POAKeeper)
		am2.InitGenesis(ctx2, k2.App.AppCodec(), js)
		pend2, err := k2.App.POAKeeper.GetPendingValidators(ctx2)
		if err != nil || len(pend2.Validators) != len(stored) {
			rec2.MonitorOK, rec2.Sig = false, "C17/imported-pending-length"
			return
		}
		for i, pv := range pend2.Validators {
			if err := pv.UnpackInterfaces(k2.App.InterfaceRegistry()); err != nil {
				rec2.MonitorOK, rec2.Sig = false, "C17/imported-key-does-not-unpack"
				return
			}
			if d := listedFieldsEqual(stored[i], poa.ConvertPOAToStaking(pv)); d != "" {
				rec2.MonitorOK, rec2.Sig = false, "C17/genesis-roundtrip-loses-field:"+d
				return
			}
		}
		// after import the per-block limit works from the imported chain's total power
		cached, _ := k2.App.POAKeeper.GetCachedBlockPower(ctx2)
		lt, _ := k2.App.StakingKeeper.GetLastTotalPower(ctx2)
		if cached != lt.Uint64() {
			rec2.MonitorOK, rec2.Sig, rec2.Detail = false, "C17/cached-power-after-import", fmt.Sprintf("cached %d, last total %s", cached, lt)
		}
	}()
	out = append(out, rec2)
	return out
}
