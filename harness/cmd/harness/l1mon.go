package main

import (
	"fmt"
	"math/big"
	"sort"
	"strings"
)

// Failure is one property-monitor failure on the implementation's own trace.
type Failure struct {
	Prop   string `json:"prop"`
	Sig    string `json:"sig"`
	Height int64  `json:"height"`
	Detail string `json:"detail"`
}

func valClass(s *Snapshot, id int) string {
	v, ok := s.Vals[id]
	if !ok {
		for _, p := range s.Pending {
			if p.Oper == id {
				return "pending"
			}
		}
		return "absent"
	}
	st := map[int]string{1: "unbonded", 2: "unbonding", 3: "bonded"}[v.Status]
	if v.Jailed {
		st += "+jailed"
	}
	return st
}

func bigOf(s string) *big.Int {
	b, ok := new(big.Int).SetString(s, 10)
	if !ok {
		return big.NewInt(0)
	}
	return b
}

func totalPower(m map[int]int64) int64 {
	var t int64
	for _, p := range m {
		t += p
	}
	return t
}

// consOwner: cons key id -> validator id (first one found)
func consOwner(s *Snapshot) map[int]int {
	out := map[int]int{}
	ids := make([]int, 0, len(s.Vals))
	for id := range s.Vals {
		ids = append(ids, id)
	}
	sort.Ints(ids)
	for _, id := range ids {
		if _, dup := out[s.Vals[id].Cons]; !dup {
			out[s.Vals[id].Cons] = id
		}
	}
	return out
}

// msgTargets: validator ids targeted by successful PoA power-changing messages in the block, in order.
type poaOp struct {
	Kind   string
	Val    int
	Power  uint64
	Unsafe bool
	Sender int
	Tx     int
}

// jailChangedEarly: the validator's jailed flag differs between the two snapshots (BeginBlock jailed it, or an unjail ran)
func jailChangedEarly(prev, s *Snapshot, id int) bool {
	a, ok1 := prev.Vals[id]
	b, ok2 := s.Vals[id]
	return ok1 && ok2 && a.Jailed != b.Jailed
}

func successfulOps(bt *BlockTrace) []poaOp {
	var out []poaOp
	for i, t := range bt.Spec.Txs {
		if i >= len(bt.TxOut) || bt.TxOut[i] != "pass" {
			continue
		}
		for _, m := range t.Msgs {
			switch m.Kind {
			case "setpower", "remove", "removepending", "create", "params", "unjail":
				out = append(out, poaOp{Kind: m.Kind, Val: m.Val, Power: m.Power, Unsafe: m.Unsafe, Sender: m.Sender, Tx: i})
			}
		}
	}
	return out
}

// Monitors evaluates every property's executable statement on the trace. twin: optional results of
// twin executions (C06/C01), filled by the caller.
func Monitors(h History, tr *Trace) []Failure {
	var fs []Failure
	add := func(prop, sig string, height int64, detail string, a ...interface{}) {
		fs = append(fs, Failure{Prop: prop, Sig: sig, Height: height, Detail: fmt.Sprintf(detail, a...)})
	}
	prev := tr.Init
	// ---- genesis set (C02) ----
	checkSet := func(s *Snapshot, height int64) {
		owner := consOwner(s)
		expected := map[int]int64{}
		for id, v := range s.Vals {
			if v.Status == 3 && !v.Jailed {
				var p int64
				fmt.Sscan(s.QPower[id], &p)
				if s.QPower[id] == "error" {
					add("C02", "C02/power-query-fails-for-bonded-validator", height, "validator %d", id)
					add("C18", "C18/power-query-fails-for-existing-validator", height, "validator %d", id)
				}
				expected[v.Cons] = p
			}
		}
		for ck, p := range s.CometNext {
			ep, ok := expected[ck]
			vid, known := owner[ck]
			cls := "no-record"
			if known {
				cls = valClass(s, vid)
			}
			if !ok {
				add("C02", "C02/comet-has-member-chain-does-not-report-bonded:"+cls, height, "cons key %d power %d in CometBFT's next set", ck, p)
			} else if ep != p {
				add("C02", "C02/power-differs:"+cls, height, "cons key %d: CometBFT %d, chain query %d", ck, p, ep)
			}
		}
		for ck, ep := range expected {
			if _, ok := s.CometNext[ck]; !ok {
				sig := "C02/bonded-validator-missing-from-comet-set:" + valClass(s, owner[ck])
				if capBinding(s) {
					sig += ":max-validators-binding"
				}
				add("C02", sig, height, "cons key %d chain power %d", ck, ep)
			}
		}
		// two validator records sharing a consensus key
		seen := map[int]int{}
		for id, v := range s.Vals {
			if o, dup := seen[v.Cons]; dup {
				add("C10", "C10/two-validators-share-consensus-key", height, "validators %d and %d", o, id)
				if ov := s.Vals[o]; v.Status == 3 && !v.Jailed && ov.Status == 3 && !ov.Jailed {
					// two bonded validators behind one key: whatever CometBFT holds for that key, it is not the chain's bonded set
					add("C02", "C02/two-bonded-validators-share-consensus-key", height, "validators %d and %d", o, id)
				}
			}
			seen[v.Cons] = id
		}
		// C18: queries
		for id := range s.Vals {
			v := s.Vals[id]
			want := fmt.Sprint(s.CometNext[v.Cons])
			if owner[v.Cons] != id {
				continue
			}
			if s.QPower[id] != want {
				add("C18", "C18/power-query-differs-from-validator-set:"+valClass(s, id), height, "validator %d: query %s, set %s", id, s.QPower[id], want)
			}
		}
		for _, id := range []int{unknownVal, -2} {
			if s.QPower[id] != "error" {
				add("C18", "C18/power-query-answers-for-unknown-address", height, "id %d -> %s", id, s.QPower[id])
			}
		}
		for _, p := range s.Pending {
			if _, isVal := s.Vals[p.Oper]; !isVal && p.Oper >= 0 && s.QPower[p.Oper] != "error" {
				add("C18", "C18/power-query-answers-for-pending-only-operator", height, "operator %d -> %s", p.Oper, s.QPower[p.Oper])
			}
			if !p.KeyUsable {
				add("C18", "C18/pending-entry-without-usable-consensus-key", height, "operator %d", p.Oper)
			}
		}
		if s.QPendingN != len(s.Pending) {
			add("C18", "C18/pending-query-length", height, "query %d, store %d", s.QPendingN, len(s.Pending))
		} else {
			for i, p := range s.Pending {
				want := fmt.Sprintf("%d|%d|%s|%s|%s|%s|%s|%s", p.Oper, p.Cons, p.Tokens, p.MSD, p.Rate, p.MaxRate, p.MaxChg, p.Desc)
				if i < len(s.QPending) && s.QPending[i] != want {
					add("C18", "C18/pending-query-entry-differs-from-stored-application", height, "index %d: query %q, store %q", i, s.QPending[i], want)
					add("C10", "C10/pending-query-entry-differs-from-stored-application", height, "index %d: query %q, store %q", i, s.QPending[i], want)
					break
				}
			}
		}
		if s.QAuthority != fmt.Sprint(adminID) {
			add("C18", "C18/authority-query", height, "got %s", s.QAuthority)
			add("C01", "C01/authority-query-differs-from-configured-admin", height, "got %s", s.QAuthority)
		}
		// C11 pools
		bonded, notb := big.NewInt(0), big.NewInt(0)
		for _, v := range s.Vals {
			if v.Status == 3 {
				bonded.Add(bonded, bigOf(v.Tokens))
			} else {
				notb.Add(notb, bigOf(v.Tokens))
			}
		}
		if bonded.Cmp(bigOf(s.Bonded)) != 0 {
			dir := "above"
			if bigOf(s.Bonded).Cmp(bonded) < 0 {
				dir = "below"
			}
			add("C11", "C11/bonded-pool-"+dir+"-sum-of-bonded-tokens", height, "pool %s, tokens %s", s.Bonded, bonded)
		}
		if notb.Cmp(bigOf(s.NotBonded)) != 0 {
			dir := "above"
			if bigOf(s.NotBonded).Cmp(notb) < 0 {
				dir = "below"
			}
			add("C11", "C11/notbonded-pool-"+dir+"-sum-of-unbonding-tokens", height, "pool %s, tokens %s", s.NotBonded, notb)
		}
		for _, inv := range s.Invariants {
			add("K3", "K3/sdk-invariant-broken:"+strings.SplitN(inv, ":", 2)[0], height, "%s", inv)
		}
		// C10 uniqueness
		ops, cks := map[int]string{}, map[int]string{}
		for id, v := range s.Vals {
			ops[id] = "validator"
			cks[v.Cons] = "validator"
		}
		for _, p := range s.Pending {
			if w, dup := ops[p.Oper]; dup {
				add("C10", "C10/duplicate-operator:pending+"+w, height, "operator %d", p.Oper)
			}
			ops[p.Oper] = "pending"
			if w, dup := cks[p.Cons]; dup && p.Cons >= 0 {
				add("C10", "C10/duplicate-consensus-key:pending+"+w, height, "cons key %d", p.Cons)
			}
			cks[p.Cons] = "pending"
			if p.Tokens != "0" || p.MSD != "1" {
				add("C10", "C10/pending-entry-fixed-fields", height, "operator %d tokens %s msd %s", p.Oper, p.Tokens, p.MSD)
				add("C15", "C15/pending-entry-fixed-fields", height, "operator %d tokens %s msd %s", p.Oper, p.Tokens, p.MSD)
			}
		}
		// C13 (d): x/slashing's liveness accounting stays consistent whatever the admin does: the missed-block counter is
		// the number of missed bits recorded in the window
		for i, g := range s.Sign {
			if g != nil && g.Present && g.Missed != g.BitMissed {
				add("C13", "C13/missed-counter-differs-from-bitmap", height, "cons key %d: counter %d, bits %d", i, g.Missed, g.BitMissed)
			}
		}
		// C16: the validator cap in force is respected by the set CometBFT is given (a lowered cap displaces the weakest
		// validators at the end of the block that lowers it)
		if s.MaxVals > 0 && int64(len(s.CometNext)) > s.MaxVals {
			add("C16", "C16/validator-set-larger-than-max-validators", height, "set has %d members, max_validators is %d", len(s.CometNext), s.MaxVals)
		}
		// C13 (a): jailed validators are out of the set — and so is their consensus key, whoever else claims it
		for id, v := range s.Vals {
			if v.Jailed {
				if p, in := s.CometNext[v.Cons]; in && owner[v.Cons] != id {
					add("C13", "C13/jailed-validators-consensus-key-in-next-set", height, "validator %d is jailed, its key %d has power %d", id, v.Cons, p)
				}
				if p, in := s.CometNext[v.Cons]; in && owner[v.Cons] == id {
					add("C13", "C13/jailed-validator-in-next-set", height, "validator %d power %d", id, p)
				}
			}
		}
	}
	checkSet(tr.Init, 0)
	// InitChain's own list
	{
		got := map[int]int64{}
		for _, u := range tr.InitUp {
			got[int(u[0])] = u[1]
		}
		for ck, p := range tr.Init.CometNext {
			if got[ck] != p {
				add("C02", "C02/initchain-validators", 0, "cons %d", ck)
			}
		}
	}
	restOfSupply := new(big.Int).Sub(bigOf(tr.Init.Supply), new(big.Int).Add(bigOf(tr.Init.Bonded), bigOf(tr.Init.NotBonded)))
	pendingSpec := append([]PendSnap(nil), tr.Init.Pending...)
	removed := map[int]bool{} // validators removed by RemoveValidator and not re-admitted by the admin since
	opOnNonBonded := false
	for _, bt := range tr.Blocks {
		ht := bt.Height
		// ---- C04 ----
		if bt.Halt != "" {
			add("C04", "C04/halt:"+bt.Halt, ht, "block execution failed")
			if opOnNonBonded {
				add("C13", "C13/halt-after-admin-op-on-non-bonded-validator:"+bt.Halt, ht, "")
			}
			break
		}
		if bt.Comet == "empty" && bt.After != nil && len(prev.CometNext) > 0 {
			// H-alive (DESIGN.md App. A): x/slashing / x/evidence jailed every member of the set in this block's BeginBlock — possibly for
			// downtime accumulated in earlier blocks, which the executor's rule (applied when an absence is scheduled) cannot foresee.
			// With nobody left to sign there is no chain; that is not PoA's doing (its messages of this block were judged with those
			// validators already jailed). The history ends here and is not a finding.
			allJailedNow := true
			for ck := range prev.CometNext {
				vid, ok := consOwner(prev)[ck]
				pv, v := prev.Vals[vid], bt.After.Vals[vid]
				if !ok || pv == nil || v == nil || pv.Jailed || !v.Jailed {
					allJailedNow = false
				}
			}
			if allJailedNow {
				break
			}
		}
		if bt.Comet != "ok" {
			add("C04", "C04/comet-refuses-updates:"+bt.Comet, ht, "updates %v", bt.Updates)
			// C03: the power a successful SetPower / RemoveValidator of this block assigned never reaches the validator set
			for _, op := range successfulOps(bt) {
				if op.Kind == "setpower" || op.Kind == "remove" {
					add("C03", "C03/successful-operation-not-reflected-in-next-set:comet-refuses:"+bt.Comet, ht, "%s validator %d; updates %v", op.Kind, op.Val, bt.Updates)
					break
				}
			}
			if opOnNonBonded {
				add("C13", "C13/comet-refusal-after-admin-op-on-non-bonded-validator:"+bt.Comet, ht, "")
			}
			break
		}
		// ---- C01: senders that cannot sign (module accounts, x/staking's own authority) are not the admin either ----
		for _, pr := range bt.Probes {
			f := strings.SplitN(pr, ":", 3)
			if len(f) == 3 && f[2] != "err 0 3" {
				add("C01", "C01/module-account-sender-not-refused-as-not-an-authority:"+f[0]+":"+f[1], ht, "outcome %s", f[2])
			}
		}
		s := bt.After
		ops := successfulOps(bt)
		for _, op := range ops {
			if (op.Kind == "setpower" || op.Kind == "remove") && op.Val >= 0 && op.Val < poolSize {
				if c := valClass(prev, op.Val); c != "bonded" && c != "pending" {
					opOnNonBonded = true
				}
			}
		}
		checkSet(s, ht)

		// ---- C03 / C13(c) / C14 read-back ----
		lastOp := map[int]poaOp{}
		targetCount := map[int]int{}
		for _, op := range ops {
			if op.Kind == "setpower" || op.Kind == "remove" {
				lastOp[op.Val] = op
				targetCount[op.Val]++
			}
		}
		jailChanged := map[int]bool{}
		for id, v := range s.Vals {
			if pv, ok := prev.Vals[id]; ok && pv.Jailed != v.Jailed {
				jailChanged[id] = true
			}
		}
		// double-sign evidence delivered with the block: x/evidence slashes these validators (and jails them, if they are not jailed yet)
		punished := map[int]bool{}
		for _, e := range bt.Spec.Evidence {
			if vid, ok := consOwner(prev)[e.Cons]; ok {
				punished[vid] = true
			}
		}
		capInPlay := prev.MaxVals != s.MaxVals || capBinding(prev) || capBinding(s)
		owner := consOwner(s)
		// C13 (e): a double signer ends the block jailed (unless the evidence is one x/evidence ignores: unbonded validator,
		// entry outside the evidence window, validator already tombstoned)
		for _, e := range bt.Spec.Evidence {
			vid, ok := consOwner(prev)[e.Cons]
			if !ok {
				continue
			}
			pv, v := prev.Vals[vid], s.Vals[vid]
			if pv == nil || v == nil || pv.Status == 1 {
				continue
			}
			if g := prev.Sign[e.Cons]; g != nil && g.Tomb {
				continue
			}
			stale := s.Now-e.Time > evMaxAgeSecs && int64(ht)-e.Height > evMaxAgeBlocks
			if !stale && !v.Jailed {
				add("C13", "C13/double-signer-not-jailed", ht, "validator %d (cons key %d) evidence height %d power %d", vid, e.Cons, e.Height, e.Power)
			}
			if !stale && bigOf(v.Tokens).Cmp(bigOf(pv.Tokens)) > 0 {
				if _, targeted := lastOp[vid]; !targeted {
					add("C13", "C13/double-signer-gained-tokens", ht, "validator %d tokens %s -> %s", vid, pv.Tokens, v.Tokens)
				}
			}
		}
		// C14: a request that would not change the validator's voting power is rejected (judged on the first PoA
		// operation aimed at the validator in the block, against the power it held when the block began)
		{
			first := map[int]bool{}
			for _, t := range bt.Spec.Txs {
				for _, m := range t.Msgs {
					if m.Kind == "setpower" || m.Kind == "remove" {
						if !first[m.Val] {
							first[m.Val] = true
						}
					}
				}
			}
			seen := map[int]bool{}
			for i, t := range bt.Spec.Txs {
				for _, m := range t.Msgs {
					if m.Kind != "setpower" && m.Kind != "remove" {
						continue
					}
					if seen[m.Val] {
						continue
					}
					seen[m.Val] = true
					if m.Kind != "setpower" || i >= len(bt.TxOut) || bt.TxOut[i] != "pass" || len(t.Msgs) != 1 {
						continue
					}
					pv, ok := prev.Vals[m.Val]
					if !ok || pv.Status != 3 || pv.Jailed || jailChangedEarly(prev, s, m.Val) {
						continue
					}
					if cur, in := prev.CometNext[pv.Cons]; in && consOwner(prev)[pv.Cons] == m.Val && cur == int64(m.Power/1_000_000) && !capBinding(prev) {
						add("C14", "C14/same-power-request-accepted", ht, "validator %d holds power %d, request %d", m.Val, cur, m.Power)
					}
				}
			}
		}
		for v, op := range lastOp {
			if v < 0 || v >= poolSize {
				continue
			}
			vs, ok := s.Vals[v]
			if !ok {
				continue
			}
			switch op.Kind {
			case "setpower":
				removed[v] = false
				want := int64(op.Power / 1_000_000)
				got, in := s.CometNext[vs.Cons]
				if vs.Jailed {
					// the request succeeded although the validator is (being) jailed: it neither failed cleanly nor took effect
					add("C03", "C03/setpower-succeeded-on-jailed-validator", ht, "validator %d requested %d", v, want)
					add("C13", "C13/setpower-succeeded-on-jailed-validator", ht, "validator %d requested %d", v, want)
				}
				if !vs.Jailed && !capInPlay && (!in || got != want) {
					add("C03", "C03/setpower-not-reflected-in-next-set:"+valClass(prev, v), ht, "validator %d requested %d, next set has %v (%d)", v, want, in, got)
				}
				if vs.Tokens != fmt.Sprint(op.Power) || vs.Shares != new(big.Int).Mul(new(big.Int).SetUint64(op.Power), ten18).String() || vs.SelfDel != vs.Shares {
					add("C14", "C14/tokens-or-shares-differ-from-request:"+valClass(prev, v), ht, "validator %d power %d tokens %s shares %s del %s", v, op.Power, vs.Tokens, vs.Shares, vs.SelfDel)
					add("C03", "C03/target-stake-differs-from-request:"+valClass(prev, v), ht, "validator %d power %d tokens %s shares %s del %s", v, op.Power, vs.Tokens, vs.Shares, vs.SelfDel)
				}
			case "remove":
				removed[v] = true
				// a removal leaves the target without tokens, shares and self-delegation
				if vs.Tokens != "0" || vs.Shares != "0" || vs.SelfDel != "0" {
					add("C03", "C03/removed-validator-keeps-stake", ht, "validator %d tokens %s shares %s del %s", v, vs.Tokens, vs.Shares, vs.SelfDel)
				}
			}
		}
		for v, gone := range removed {
			if !gone {
				continue
			}
			if vs, ok := s.Vals[v]; ok {
				if p, in := s.CometNext[vs.Cons]; in && owner[vs.Cons] == v {
					add("C03", "C03/removed-validator-in-next-set", ht, "validator %d power %d", v, p)
				}
			}
		}
		// updates mention only legitimate validators
		for _, u := range bt.Updates {
			ck := int(u[0])
			vid, ok := owner[ck]
			if !ok {
				if po, ok2 := consOwner(prev)[ck]; ok2 {
					vid = po
				} else {
					add("C03", "C03/update-for-unknown-consensus-key", ht, "cons %d", ck)
					continue
				}
			}
			_, targeted := lastOp[vid]
			if !targeted && !jailChanged[vid] && !punished[vid] && !capInPlay {
				add("C03", "C03/update-for-non-target:"+valClass(prev, vid), ht, "validator %d update power %d; targets %v", vid, u[1], keysOf(lastOp))
			}
		}
		// frame: non-targets keep power, status, tokens, self-delegation
		for id, v := range s.Vals {
			pv, ok := prev.Vals[id]
			if !ok {
				continue
			}
			if _, targeted := lastOp[id]; targeted || jailChanged[id] || punished[id] || capInPlay {
				continue
			}
			if v.Jailed && pv.Jailed && v.Status != pv.Status {
				continue // a jailed validator finishing its unbonding period
			}
			if pv.Status == 2 && v.Status == 1 {
				continue // unbonding maturity
			}
			if v.Tokens != pv.Tokens || v.Status != pv.Status || v.SelfDel != pv.SelfDel || s.CometNext[v.Cons] != prev.CometNext[pv.Cons] {
				add("C03", "C03/non-target-changed:"+valClass(prev, id), ht, "validator %d: tokens %s->%s status %d->%d del %s->%s power %d->%d", id, pv.Tokens, v.Tokens, pv.Status, v.Status, pv.SelfDel, v.SelfDel, prev.CometNext[pv.Cons], s.CometNext[v.Cons])
			}
		}
		// a removed-and-matured validator's record may disappear; anything else must not vanish
		for id, pv := range prev.Vals {
			if _, ok := s.Vals[id]; !ok && !(pv.Status == 2 || pv.Status == 1) {
				add("C03", "C03/validator-record-vanished:"+valClass(prev, id), ht, "validator %d", id)
			}
		}
		// C13(c): power decreases only for legitimate reasons
		for ck, pp := range prev.CometNext {
			np := s.CometNext[ck]
			if np >= pp {
				continue
			}
			vid, ok := consOwner(prev)[ck]
			if !ok {
				continue
			}
			_, targeted := lastOp[vid]
			nowJailed := false
			if v, ok := s.Vals[vid]; ok {
				nowJailed = v.Jailed
			}
			if !targeted && !jailChanged[vid] && !punished[vid] && !nowJailed && !capInPlay {
				add("C13", "C13/power-decreased-without-cause:"+valClass(prev, vid), ht, "validator %d %d->%d", vid, pp, np)
			}
		}
		// C13(b'): x/slashing refuses an unjail for a self-delegation below the minimum only if the validator's tokens are below it:
		// under PoA a validator's tokens are its self-delegation (C14), so a jailed validator with tokens can always come back
		// (judged on validators this block's BeginBlock did not slash: the tokens are those of the previous block's end)
		for i, t := range bt.Spec.Txs {
			if i >= len(bt.TxOut) || len(t.Msgs) != 1 || t.Msgs[0].Kind != "unjail" {
				continue
			}
			if bt.TxOut[i] != "err 3 7" && bt.TxOut[i] != "err 3 6" {
				continue
			}
			if pv, ok := prev.Vals[t.Msgs[0].Val]; ok && !punished[t.Msgs[0].Val] && !jailChanged[t.Msgs[0].Val] && bigOf(pv.Tokens).Cmp(bigOf(pv.MSD)) >= 0 && bigOf(pv.Tokens).Sign() > 0 {
				add("C13", "C13/unjail-refused-for-self-delegation-although-the-validator-holds-tokens:"+bt.TxOut[i], ht, "validator %d tokens %s msd %s self-delegation %s", t.Msgs[0].Val, pv.Tokens, pv.MSD, pv.SelfDel)
			}
		}
		// C13(a'): only a successful unjail clears the jailed flag
		for id := range jailChanged {
			if pv := prev.Vals[id]; pv != nil && pv.Jailed && !s.Vals[id].Jailed {
				unjailed := false
				for _, op := range ops {
					if op.Kind == "unjail" && op.Val == id {
						unjailed = true
					}
				}
				if !unjailed {
					add("C13", "C13/jailed-flag-cleared-without-unjail", ht, "validator %d (power now %d)", id, s.CometNext[s.Vals[id].Cons])
				}
			}
		}
		// C13(b): unjailed validators return with tokens/10^6
		for id := range jailChanged {
			v := s.Vals[id]
			if !v.Jailed && v.Status == 3 && !capInPlay {
				want := new(big.Int).Quo(bigOf(v.Tokens), big.NewInt(1_000_000)).Int64()
				if got := s.CometNext[v.Cons]; got != want {
					add("C13", "C13/unjailed-validator-power", ht, "validator %d tokens %s next-set power %d", id, v.Tokens, got)
				}
			}
		}

		// ---- C05: reference accumulator fed by the tracked set ----
		// (not evaluated while max_validators binds: known finding C02/...:max-validators-binding leaves records the
		// set does not reflect)
		if ht > 1 && !capInPlay {
			T := totalPower(prev.CometNext)
			cur := map[int]int64{} // validator id -> power as the block proceeds (property notion)
			base := map[int]int64{}
			for ck, p := range prev.CometNext {
				if vid, ok := consOwner(prev)[ck]; ok {
					cur[vid], base[vid] = p, p
					// jailed by x/slashing in this block's BeginBlock: its power is already gone when the messages run
					if v, ok := s.Vals[vid]; ok && v.Jailed && jailChanged[vid] {
						cur[vid], base[vid] = 0, 0
					}
				}
			}
			var A, Acode int64
			seen := map[int]int{}
			for i, t := range bt.Spec.Txs {
				if i >= len(bt.TxOut) {
					break
				}
				out := bt.TxOut[i]
				if out != "pass" && out != "err 0 4" {
					continue
				}
				tA, tAcode := A, Acode
				tcur := map[int]int64{}
				for k, v := range cur {
					tcur[k] = v
				}
				expectFail, expectFailCode, repeat := false, false, false
				relevant := false
				for _, m := range t.Msgs {
					if m.Kind != "setpower" && m.Kind != "remove" {
						continue
					}
					relevant = true
					np := int64(0)
					if m.Kind == "setpower" {
						np = int64(m.Power / 1_000_000)
					}
					d := np - tcur[m.Val]
					if d < 0 {
						d = -d
					}
					dc := np - base[m.Val]
					if dc < 0 {
						dc = -dc
					}
					if seen[m.Val] > 0 {
						repeat = true
					}
					seen[m.Val]++
					tA += d
					tAcode += dc
					tcur[m.Val] = np
					if m.Kind == "setpower" && !m.Unsafe {
						if 100*tA >= 30*T {
							expectFail = true
						}
						if 100*tAcode >= 30*T {
							expectFailCode = true
						}
					}
				}
				if !relevant {
					continue
				}
				if out == "pass" {
					A, Acode, cur = tA, tAcode, tcur
				} else {
					for _, m := range t.Msgs {
						if m.Kind == "setpower" || m.Kind == "remove" {
							seen[m.Val]--
						}
					}
				}
				gotFail := out == "err 0 4"
				if gotFail != expectFail {
					sig := "C05/accepted-over-limit"
					if gotFail {
						sig = "C05/rejected-under-limit"
					}
					if repeat && gotFail == expectFailCode {
						sig = "C05/repeat-target-delta-measured-against-previous-block"
					}
					add("C05", sig, ht, "tx %d: total %d, running sum %d (code notion %d), outcome %s", i, T, tA, tAcode, out)
					if sig == "C05/accepted-over-limit" && out == "pass" {
						// the request that had to be refused ran to the end and its writes were committed with the block:
						// the block's state is not the state it would have had without that transaction
						add("C06", "C06/refused-operation-committed", ht, "tx %d over the limit reported success", i)
					}
				}
			}
			if s.Abs != 0 && false {
				_ = s
			}
			// the stored running sum at the end of the block is the sum of the accepted changes
			if s.Abs != uint64(A) {
				add("C05", "C05/stored-running-sum-differs-from-accepted-changes", ht, "stored %d, accepted changes sum to %d", s.Abs, A)
				for _, op := range ops {
					if op.Kind == "params" {
						add("C16", "C16/parameter-update-changed-the-per-block-sum", ht, "stored %d, accepted changes sum to %d", s.Abs, A)
						break
					}
				}
			}
			if s.Cached != uint64(T) {
				add("C05", "C05/cached-total-differs-from-previous-set-total", ht, "cached %d, previous set total %d", s.Cached, T)
			}
		}

		// ---- C15: an accepted application satisfies x/staking's own rules (state-dependent ones: chain minimum
		//      commission, unused operator and consensus key; the stateless ones are compared at L2) ----
		{
			curMin := big.NewInt(0)
			if pf := strings.Fields(prev.Params); len(pf) == 6 {
				curMin = bigOf(pf[5])
			}
			// a key of a type the chain's consensus parameters list (both types of the pool) is never refused as unsupported
			for i, t := range bt.Spec.Txs {
				if i < len(bt.TxOut) && bt.TxOut[i] == "err 2 6" && len(t.Msgs) == 1 && t.Msgs[0].Kind == "create" && t.Msgs[0].Cons >= 0 && t.Msgs[0].Cons < poolSize {
					add("C15", "C15/supported-key-type-refused", ht, "consensus key %d", t.Msgs[0].Cons)
				}
			}
			for i, t := range bt.Spec.Txs {
				if i >= len(bt.TxOut) || bt.TxOut[i] != "pass" {
					continue
				}
				for _, m := range t.Msgs {
					if m.Kind == "params" && m.Params != nil && m.Params.MinComm != nil {
						curMin = m.Params.MinComm // in force for the messages that follow in this block
					}
					if m.Kind != "create" {
						continue
					}
					if m.Rate != nil && m.Rate.Cmp(curMin) < 0 {
						add("C15", "C15/accepted-application-below-chain-minimum-commission", ht, "rate %s, minimum %s", m.Rate, curMin)
					}
					if _, isVal := prev.Vals[m.Val]; isVal {
						add("C15", "C15/accepted-application-of-existing-operator", ht, "operator %d", m.Val)
					}
					for id, v := range prev.Vals {
						if v.Cons == m.Cons {
							add("C15", "C15/accepted-application-with-used-consensus-key", ht, "key %d of validator %d", m.Cons, id)
						}
					}
					// ... nor to an application that was pending when the block began and still is when it ends
					for _, pp := range prev.Pending {
						stillPending := false
						for _, op := range ops {
							if (op.Kind == "removepending" || op.Kind == "setpower") && op.Val == pp.Oper {
								stillPending = false // left the list (and may have come back) during the block: no claim
								goto nextPending
							}
						}
						for _, sp := range s.Pending {
							if sp.Oper == pp.Oper && sp.Cons == pp.Cons {
								stillPending = true
							}
						}
						if stillPending && pp.Cons == m.Cons && pp.Cons >= 0 && pp.Oper != m.Val {
							add("C15", "C15/accepted-application-with-pending-consensus-key", ht, "key %d of pending operator %d", m.Cons, pp.Oper)
						}
						if stillPending && pp.Oper == m.Val {
							add("C15", "C15/accepted-application-of-pending-operator", ht, "operator %d", m.Val)
						}
					nextPending:
					}
					if m.Rate != nil && m.MaxRate != nil && m.MaxChg != nil &&
						(m.Rate.Sign() < 0 || m.Rate.Cmp(m.MaxRate) > 0 || m.MaxRate.Cmp(ten18) > 0 || m.MaxChg.Sign() < 0 || m.MaxChg.Cmp(m.MaxRate) > 0) {
						add("C15", "C15/accepted-application-with-invalid-commission", ht, "%s %s %s", m.Rate, m.MaxRate, m.MaxChg)
					}
					if m.Moniker == 0 || m.Moniker > 70 || m.Cons < 0 {
						add("C15", "C15/accepted-application-with-invalid-description-or-key", ht, "moniker %d key %d", m.Moniker, m.Cons)
					}
				}
			}
		}

		// ---- C10: pending list refines the spec ----
		for _, op := range ops {
			switch op.Kind {
			case "create":
				for _, m := range bt.Spec.Txs[op.Tx].Msgs {
					if m.Kind == "create" && m.Val == op.Val {
						d := descOf(m)
						pendingSpec = append(pendingSpec, PendSnap{Oper: m.Val, Cons: m.Cons, Tokens: "0", MSD: "1", Rate: optStr(m.Rate), MaxRate: optStr(m.MaxRate), MaxChg: optStr(m.MaxChg),
							Desc: descKey(d.Moniker, d.Identity, d.Website, d.SecurityContact, d.Details)})
						break
					}
				}
			case "setpower", "removepending":
				for i, p := range pendingSpec {
					if p.Oper == op.Val {
						// admission moves exactly that application into the validator set: same consensus key, description and rates
						if v, ok := s.Vals[op.Val]; ok && op.Kind == "setpower" && p.Desc != "" {
							if v.Cons != p.Cons || v.Desc != p.Desc || v.MaxRate != p.MaxRate || v.MaxChg != p.MaxChg {
								add("C10", "C10/admitted-validator-differs-from-application", ht, "operator %d: application %+v validator %+v", op.Val, p, *v)
							}
						}
						pendingSpec = append(append([]PendSnap(nil), pendingSpec[:i]...), pendingSpec[i+1:]...)
						break
					}
				}
			}
		}
		if len(pendingSpec) != len(s.Pending) {
			add("C10", "C10/pending-list-differs-from-applications", ht, "expected %d entries, query returns %d", len(pendingSpec), len(s.Pending))
			pendingSpec = append([]PendSnap(nil), s.Pending...)
		} else {
			for i := range pendingSpec {
				a, b := pendingSpec[i], s.Pending[i]
				if a.Oper != b.Oper || a.Cons != b.Cons || a.Rate != b.Rate || a.MaxRate != b.MaxRate || a.MaxChg != b.MaxChg || (a.Desc != "" && a.Desc != b.Desc) {
					add("C10", "C10/pending-entry-differs-from-application", ht, "index %d: expected %+v got %+v", i, a, b)
					pendingSpec = append([]PendSnap(nil), s.Pending...)
					break
				}
			}
		}
		onlyQueueOps := len(ops) > 0
		for _, op := range ops {
			if op.Kind != "create" && op.Kind != "removepending" {
				onlyQueueOps = false
			}
		}
		if onlyQueueOps && len(bt.Updates) > 0 && len(jailChanged) == 0 && len(punished) == 0 {
			add("C10", "C10/queue-operation-changed-validator-set", ht, "updates %v", bt.Updates)
		}
		if onlyQueueOps && s.Supply != prev.Supply && len(jailChanged) == 0 && len(punished) == 0 {
			add("C10", "C10/queue-operation-changed-supply", ht, "%s -> %s", prev.Supply, s.Supply)
		}

		// ---- C11: nobody else is credited or debited ----
		rest := new(big.Int).Sub(bigOf(s.Supply), new(big.Int).Add(bigOf(s.Bonded), bigOf(s.NotBonded)))
		if rest.Cmp(restOfSupply) != 0 {
			add("C11", "C11/supply-outside-pools-changed", ht, "%s -> %s", restOfSupply, rest)
			restOfSupply = rest
		}

		// ---- C01: gated messages from non-admins ----
		for i, t := range bt.Spec.Txs {
			if i >= len(bt.TxOut) {
				break
			}
			for j, m := range t.Msgs {
				gated := m.Kind == "setpower" || m.Kind == "removepending" || m.Kind == "params" || m.Kind == "remove"
				if !gated || m.Sender == adminID {
					continue
				}
				selfRemoval := m.Kind == "remove" && m.Sender == m.Val
				if selfRemoval {
					continue
				}
				_ = j
				if len(t.Msgs) == 1 && bt.TxOut[i] != "err 0 3" {
					add("C01", "C01/non-admin-"+m.Kind+"-not-rejected-as-not-an-authority", ht, "tx %d sender %d outcome %s", i, m.Sender, bt.TxOut[i])
				} else if bt.TxOut[i] == "pass" {
					add("C01", "C01/non-admin-"+m.Kind+"-succeeded", ht, "tx %d sender %d", i, m.Sender)
				}
			}
		}

		// ---- C16: parameters applied exactly / invalid ones refused ----
		var lastParams *paramTuple
		for i, t := range bt.Spec.Txs {
			if i >= len(bt.TxOut) {
				break
			}
			for _, m := range t.Msgs {
				if m.Kind != "params" || m.Sender != adminID {
					continue
				}
				valid := m.Params.staking().Validate() == nil && m.Params.denomID() == 0 // the bond denom cannot change
				if bt.TxOut[i] == "pass" {
					lastParams = m.Params
					if m.Params.staking().Validate() != nil {
						add("C16", "C16/invalid-parameters-accepted", ht, "%s", m.Params.Sx())
					} else if !valid {
						add("C16", "C16/bond-denom-changed", ht, "%s", m.Params.Sx())
					}
				} else if valid && len(t.Msgs) == 1 {
					add("C16", "C16/valid-parameters-rejected", ht, "%s -> %s", m.Params.Sx(), bt.TxOut[i])
				}
			}
		}
		if lastParams != nil {
			want := fmt.Sprintf("%d %d %d %d %d %s", lastParams.Unbonding, lastParams.MaxVals, lastParams.MaxEntries, lastParams.Hist, lastParams.denomID(), optStrNil(lastParams.MinComm))
			if s.Params != want {
				add("C16", "C16/parameters-differ-from-message", ht, "want %s got %s", want, s.Params)
			}
		} else if s.Params != prev.Params {
			add("C16", "C16/parameters-changed-without-admin-message", ht, "%s -> %s", prev.Params, s.Params)
		}
		prev = s
	}
	return fs
}

// capBinding: more validators could be in the set than max_validators allows
func capBinding(s *Snapshot) bool {
	eligible := 0
	for _, v := range s.Vals {
		if !v.Jailed && bigOf(v.Tokens).Cmp(big.NewInt(1_000_000)) >= 0 {
			eligible++
		}
	}
	return int64(eligible) > s.MaxVals
}

func keysOf(m map[int]poaOp) []int {
	var out []int
	for k := range m {
		out = append(out, k)
	}
	sort.Ints(out)
	return out
}

func optStr(b *big.Int) string {
	if b == nil {
		return "nil"
	}
	return b.String()
}

func optStrNil(b *big.Int) string { return optStr(b) }

// dedupe keeps the first failure per (prop, signature).
func dedupe(fs []Failure) []Failure {
	seen := map[string]bool{}
	var out []Failure
	for _, f := range fs {
		k := f.Prop + "|" + f.Sig
		if !seen[k] {
			seen[k] = true
			out = append(out, f)
		}
	}
	return out
}

func sigsOf(fs []Failure) string {
	var ss []string
	for _, f := range fs {
		ss = append(ss, f.Sig)
	}
	return strings.Join(ss, ";")
}
