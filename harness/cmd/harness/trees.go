package main

import (
	"fmt"
	"math/big"
	"math/rand"

	"cosmossdk.io/math"
	codectypes "github.com/cosmos/cosmos-sdk/codec/types"
	sdk "github.com/cosmos/cosmos-sdk/types"
	"github.com/cosmos/cosmos-sdk/x/authz"
	banktypes "github.com/cosmos/cosmos-sdk/x/bank/types"
	distrtypes "github.com/cosmos/cosmos-sdk/x/distribution/types"
	govv1 "github.com/cosmos/cosmos-sdk/x/gov/types/v1"
	govv1beta1 "github.com/cosmos/cosmos-sdk/x/gov/types/v1beta1"
	"github.com/cosmos/cosmos-sdk/x/group"
	slashingtypes "github.com/cosmos/cosmos-sdk/x/slashing/types"
	stakingtypes "github.com/cosmos/cosmos-sdk/x/staking/types"

	"github.com/strangelove-ventures/poa"
)

// Tree is the harness' own description of a message tree; the Go messages and the model term are
// both produced from it.
type Tree struct {
	Wrap     string   `json:"wrap,omitempty"` // "", WAuthzExec, WGovSubmit, WGroupSubmit
	UnpackOK bool     `json:"unpack_ok,omitempty"`
	Children []*Tree  `json:"children,omitempty"`
	Leaf     string   `json:"leaf,omitempty"` // stk:<kind>, edit, poacreate, withdraw, other:<n>
	Rate     *big.Int `json:"rate,omitempty"` // scaled by 10^18; nil = absent
	MSD      bool     `json:"msd,omitempty"`  // edit leaf: the message also sets a minimum self delegation (invisible to the model: no rule reads it)
}

var stkKinds = []string{"SCreateValidator", "SDelegate", "SUndelegate", "SBeginRedelegate", "SCancelUnbonding", "SUpdateParams"}
var wrappers = []string{"WAuthzExec", "WGovSubmit", "WGroupSubmit"}

const nOther = 8

func (t *Tree) Sx() string {
	if t.Wrap != "" {
		cs := make([]string, len(t.Children))
		for i, c := range t.Children {
			cs[i] = c.Sx()
		}
		return fmt.Sprintf("(Wrap %s %s %s)", t.Wrap, sxBool(t.UnpackOK), sxList(cs))
	}
	switch {
	case len(t.Leaf) > 4 && t.Leaf[:4] == "stk:":
		return fmt.Sprintf("(Leaf (LStaking %s))", t.Leaf[4:])
	case t.Leaf == "edit":
		return fmt.Sprintf("(Leaf (LEditValidator %s))", sxOptBig(t.Rate))
	case t.Leaf == "poacreate":
		return fmt.Sprintf("(Leaf (LPoaCreate %s))", sxOptBig(t.Rate))
	case t.Leaf == "withdraw":
		return "(Leaf LWithdrawReward)"
	default:
		return "(Leaf LOther)"
	}
}

func decOf(b *big.Int) math.LegacyDec { return math.LegacyNewDecFromBigIntWithPrec(new(big.Int).Set(b), 18) }

func otherMsg(n int) sdk.Msg {
	switch n % nOther {
	case 0:
		return &banktypes.MsgSend{}
	case 1:
		return &distrtypes.MsgWithdrawValidatorCommission{}
	case 2:
		return &govv1.MsgVote{}
	case 3:
		return &slashingtypes.MsgUnjail{}
	case 4:
		return &poa.MsgSetPower{}
	case 5:
		return &poa.MsgRemoveValidator{}
	case 6:
		return &govv1beta1.MsgSubmitProposal{}
	default:
		return &group.MsgExec{}
	}
}

// Msg builds the concrete sdk.Msg for the tree.
func (t *Tree) Msg() sdk.Msg {
	if t.Wrap != "" {
		anys := make([]*codectypes.Any, 0, len(t.Children)+1)
		for _, c := range t.Children {
			a, err := codectypes.NewAnyWithValue(c.Msg())
			if err != nil {
				panic(err)
			}
			anys = append(anys, a)
		}
		if !t.UnpackOK {
			// an Any without a cached sdk.Msg: GetMessages()/GetMsgs() fail
			bad := &codectypes.Any{TypeUrl: "", Value: nil}
			pos := len(anys) / 2
			anys = append(anys[:pos], append([]*codectypes.Any{bad}, anys[pos:]...)...)
		}
		switch t.Wrap {
		case "WAuthzExec":
			return &authz.MsgExec{Grantee: "", Msgs: anys}
		case "WGovSubmit":
			return &govv1.MsgSubmitProposal{Messages: anys}
		case "WGroupSubmit":
			return &group.MsgSubmitProposal{Messages: anys}
		}
		panic("unknown wrapper " + t.Wrap)
	}
	switch {
	case t.Leaf == "stk:SCreateValidator":
		return &stakingtypes.MsgCreateValidator{}
	case t.Leaf == "stk:SDelegate":
		return &stakingtypes.MsgDelegate{}
	case t.Leaf == "stk:SUndelegate":
		return &stakingtypes.MsgUndelegate{}
	case t.Leaf == "stk:SBeginRedelegate":
		return &stakingtypes.MsgBeginRedelegate{}
	case t.Leaf == "stk:SCancelUnbonding":
		return &stakingtypes.MsgCancelUnbondingDelegation{}
	case t.Leaf == "stk:SUpdateParams":
		return &stakingtypes.MsgUpdateParams{}
	case t.Leaf == "edit":
		m := &stakingtypes.MsgEditValidator{}
		if t.Rate != nil {
			d := decOf(t.Rate)
			m.CommissionRate = &d
		}
		if t.MSD {
			x := math.NewInt(5)
			m.MinSelfDelegation = &x
		}
		return m
	case t.Leaf == "poacreate":
		m := &poa.MsgCreateValidator{}
		if t.Rate != nil {
			m.Commission.Rate = decOf(t.Rate)
		}
		return m
	case t.Leaf == "withdraw":
		return &distrtypes.MsgWithdrawDelegatorReward{}
	}
	var n int
	fmt.Sscanf(t.Leaf, "other:%d", &n)
	return otherMsg(n)
}

// ---- reference predicates: the property statements, evaluated on the harness' own tree ----

// anyLeaf reports whether some leaf satisfying p is reachable through carriers (all of them).
func (t *Tree) anyLeaf(p func(*Tree) bool) bool {
	if t.Wrap == "" {
		return p(t)
	}
	for _, c := range t.Children {
		if c.anyLeaf(p) {
			return true
		}
	}
	return false
}

func (t *Tree) hasBadUnpack() bool {
	if t.Wrap == "" {
		return false
	}
	if !t.UnpackOK {
		return true
	}
	for _, c := range t.Children {
		if c.hasBadUnpack() {
			return true
		}
	}
	return false
}

func (t *Tree) depth() int {
	if t.Wrap == "" {
		return 0
	}
	d := 0
	for _, c := range t.Children {
		if x := c.depth(); x > d {
			d = x
		}
	}
	return d + 1
}

// pathWrappers returns the carriers on the way to the first leaf satisfying p ("" if none).
func (t *Tree) pathTo(p func(*Tree) bool) ([]string, bool) {
	if t.Wrap == "" {
		return nil, p(t)
	}
	for _, c := range t.Children {
		if path, ok := c.pathTo(p); ok {
			return append([]string{t.Wrap}, path...), true
		}
	}
	return nil, false
}

func isBlockedStaking(t *Tree) bool { return len(t.Leaf) > 4 && t.Leaf[:4] == "stk:" }
func isWithdraw(t *Tree) bool       { return t.Leaf == "withdraw" }

// ---- generator ----

type treeGen struct {
	r         *rand.Rand
	rates     []*big.Int // candidate commission rates
	pBad      float64    // probability that a carrier fails to unpack
	leafBias  string     // "stk", "wd", "comm": which interesting leaves to sprinkle
	pInterest float64
}

func (g *treeGen) leaf() *Tree {
	r := g.r
	if r.Float64() < g.pInterest {
		switch g.leafBias {
		case "stk":
			return &Tree{Leaf: "stk:" + pick(r, stkKinds)}
		case "wd":
			return &Tree{Leaf: "withdraw"}
		case "comm":
			t := &Tree{Leaf: pick(r, []string{"edit", "poacreate"})}
			if r.Intn(6) != 0 {
				t.Rate = pick(r, g.rates)
			}
			if t.Leaf == "edit" {
				t.MSD = r.Intn(2) == 0 // with or without a rate
			}
			return t
		}
	}
	// benign leaves, including the interesting leaves of the *other* decorators
	switch r.Intn(10) {
	case 0:
		if g.leafBias != "stk" {
			return &Tree{Leaf: "stk:" + pick(r, stkKinds)}
		}
	case 1:
		if g.leafBias != "wd" {
			return &Tree{Leaf: "withdraw"}
		}
	case 2:
		if g.leafBias != "comm" {
			return &Tree{Leaf: "edit", Rate: pick(r, g.rates)}
		}
	}
	return &Tree{Leaf: fmt.Sprintf("other:%d", r.Intn(nOther))}
}

func (g *treeGen) tree(depth, maxFan int) *Tree {
	r := g.r
	if depth <= 0 || r.Intn(3) == 0 {
		return g.leaf()
	}
	t := &Tree{Wrap: pick(r, wrappers), UnpackOK: r.Float64() >= g.pBad}
	n := r.Intn(maxFan + 1)
	for i := 0; i < n; i++ {
		t.Children = append(t.Children, g.tree(depth-1-r.Intn(2), maxFan))
	}
	return t
}

func (g *treeGen) msgs() []*Tree {
	r := g.r
	n := 1 + r.Intn(4)
	depth := pick(r, []int{0, 1, 1, 2, 2, 3, 4, 6, 9, 12})
	fan := pick(r, []int{1, 2, 3, 4, 6})
	out := make([]*Tree, n)
	for i := range out {
		out[i] = g.tree(depth, fan)
	}
	return out
}

// MsgSigned builds the tree as a message of a signed transaction: the top-level message's signer
// field is the sender; nested messages carry plausible fields so that stateless validation passes.
func (t *Tree) MsgSigned(sender string, k *Keys) sdk.Msg {
	val0 := k.Pool[0].Val.String()
	coin := sdk.NewInt64Coin("stake", 1_000_000)
	if t.Wrap != "" {
		anys := make([]*codectypes.Any, 0, len(t.Children))
		for _, c := range t.Children {
			a, err := codectypes.NewAnyWithValue(c.MsgSigned(sender, k))
			if err != nil {
				panic(err)
			}
			anys = append(anys, a)
		}
		switch t.Wrap {
		case "WAuthzExec":
			return &authz.MsgExec{Grantee: sender, Msgs: anys}
		case "WGovSubmit":
			return &govv1.MsgSubmitProposal{Messages: anys, Proposer: sender, Title: "t", Summary: "s", InitialDeposit: sdk.NewCoins(coin)}
		case "WGroupSubmit":
			return &group.MsgSubmitProposal{Messages: anys, Proposers: []string{sender}, GroupPolicyAddress: k.accAddr(user2ID).String(), Title: "t", Summary: "s"}
		}
		panic("unknown wrapper " + t.Wrap)
	}
	switch t.Leaf {
	case "stk:SCreateValidator":
		m, _ := stakingtypes.NewMsgCreateValidator(sdk.ValAddress(sdk.MustAccAddressFromBech32(sender)).String(), k.Pool[poolSize-1].ConsPriv.PubKey(), coin,
			stakingtypes.NewDescription("x", "", "", "", ""), stakingtypes.NewCommissionRates(math.LegacyNewDecWithPrec(1, 1), math.LegacyNewDecWithPrec(5, 1), math.LegacyNewDecWithPrec(1, 1)), math.OneInt())
		return m
	case "stk:SDelegate":
		return &stakingtypes.MsgDelegate{DelegatorAddress: sender, ValidatorAddress: val0, Amount: coin}
	case "stk:SUndelegate":
		return &stakingtypes.MsgUndelegate{DelegatorAddress: sender, ValidatorAddress: val0, Amount: coin}
	case "stk:SBeginRedelegate":
		return &stakingtypes.MsgBeginRedelegate{DelegatorAddress: sender, ValidatorSrcAddress: val0, ValidatorDstAddress: k.Pool[1].Val.String(), Amount: coin}
	case "stk:SCancelUnbonding":
		return &stakingtypes.MsgCancelUnbondingDelegation{DelegatorAddress: sender, ValidatorAddress: val0, Amount: coin, CreationHeight: 1}
	case "stk:SUpdateParams":
		return &stakingtypes.MsgUpdateParams{Authority: sender, Params: stakingtypes.DefaultParams()}
	case "edit":
		m := &stakingtypes.MsgEditValidator{ValidatorAddress: sdk.ValAddress(sdk.MustAccAddressFromBech32(sender)).String(),
			Description: stakingtypes.NewDescription("edited", stakingtypes.DoNotModifyDesc, stakingtypes.DoNotModifyDesc, stakingtypes.DoNotModifyDesc, stakingtypes.DoNotModifyDesc)}
		if t.Rate != nil {
			d := decOf(t.Rate)
			m.CommissionRate = &d
		}
		if t.MSD {
			// larger than any self delegation: x/staking refuses it when the message executes, so the unmodelled
			// execution of the leaf leaves no trace in the projection
			x, _ := math.NewIntFromString("1000000000000000000000000000000")
			m.MinSelfDelegation = &x
		}
		return m
	case "withdraw":
		return &distrtypes.MsgWithdrawDelegatorReward{DelegatorAddress: sender, ValidatorAddress: val0}
	}
	return &banktypes.MsgSend{FromAddress: sender, ToAddress: k.accAddr(user2ID).String(), Amount: sdk.NewCoins(sdk.NewInt64Coin("stake", 1))}
}
