package main

import (
	"bufio"
	"encoding/json"
	"fmt"
	"math/rand"
	"os"
	"path/filepath"
	"sort"
	"strings"
)

func sp(sender, val int, power uint64, unsafe bool) MsgSpec {
	return MsgSpec{Kind: "setpower", Sender: sender, Val: val, Power: power, Unsafe: unsafe}
}
func rm(sender, val int) MsgSpec { return MsgSpec{Kind: "remove", Sender: sender, Val: val} }
func tx(ms ...MsgSpec) TxSpec     { return TxSpec{Msgs: ms} }
func blk(txs ...TxSpec) BlockSpec { return BlockSpec{Dt: 1, Txs: txs} }
func empty(n int, dt int64) []BlockSpec {
	out := make([]BlockSpec, n)
	for i := range out {
		out[i] = BlockSpec{Dt: dt}
	}
	return out
}
func createMsg(val, cons int) MsgSpec {
	return MsgSpec{Kind: "create", Sender: val, Val: val, Cons: cons, Moniker: 4, Rate: mulFrac(1, 10), MaxRate: mulFrac(1, 2), MaxChg: mulFrac(1, 10), MSD: 1}
}

// directedHistories: the second-order scenarios of DESIGN.md §2 (P-rows), always run first.
func directedHistories() map[string]History {
	g3 := defaultGenesis()
	out := map[string]History{}
	cat := func(parts ...[]BlockSpec) []BlockSpec {
		var o []BlockSpec
		for _, p := range parts {
			o = append(o, p...)
		}
		return o
	}
	M := uint64(1_000_000)
	out["P1-setpower-once"] = History{g3, cat(empty(2, 1), []BlockSpec{blk(tx(sp(adminID, 0, 12*M, false)))}, empty(3, 1))}
	out["P2-setpower-and-back"] = History{g3, cat(empty(2, 1), []BlockSpec{blk(tx(sp(adminID, 0, 12*M, false)))}, empty(2, 1), []BlockSpec{blk(tx(sp(adminID, 0, 10*M, false)))}, empty(4, 1))}
	out["P3-two-setpower-one-block"] = History{g3, cat(empty(2, 1), []BlockSpec{blk(tx(sp(adminID, 0, 11*M, false)), tx(sp(adminID, 0, 12*M, false)))}, empty(2, 1))}
	g4 := defaultGenesis()
	g4.Tokens = []int64{20_000_000, 10_000_000, 10_000_000}
	out["P4-setpower-then-remove"] = History{g4, cat(empty(2, 1), []BlockSpec{blk(tx(sp(adminID, 0, 19*M, false)))}, empty(1, 1), []BlockSpec{blk(tx(rm(adminID, 0)))}, empty(3, 1))}
	out["P5-remove-after-setpower-maturity"] = History{g3, cat(empty(2, 1), []BlockSpec{blk(tx(sp(adminID, 0, 9*M, false)))}, empty(1, 1), []BlockSpec{blk(tx(rm(adminID, 0)))}, empty(2, 1), empty(3, 20))}
	// four equal validators: one absentee holds less than a third of the power, so blocks keep being produced
	gj := defaultGenesis()
	gj.Tokens = []int64{10_000_000, 10_000_000, 10_000_000, 10_000_000}
	jail0 := []BlockSpec{{Dt: 1, Absent: []int{0}}, {Dt: 1, Absent: []int{0}}, {Dt: 1, Absent: []int{0}}, {Dt: 1, Absent: []int{0}}, {Dt: 1, Absent: []int{0}}, {Dt: 1, Absent: []int{0}}}
	unjail0 := BlockSpec{Dt: 10, Txs: []TxSpec{tx(MsgSpec{Kind: "unjail", Sender: 0, Val: 0})}}
	out["P6-setpower-jail-unjail"] = History{gj, cat(empty(1, 1), []BlockSpec{blk(tx(sp(adminID, 0, 12*M, true)))}, jail0, []BlockSpec{unjail0}, empty(3, 1))}
	out["P7-setpower-on-jailed"] = History{gj, cat(empty(1, 1), jail0, []BlockSpec{blk(tx(sp(adminID, 0, 12*M, true)))}, empty(2, 1), []BlockSpec{unjail0}, empty(2, 1), empty(3, 20))}
	g2 := defaultGenesis()
	g2.Tokens = []int64{5_000_000, 20_000_000}
	out["P8-remove-last-bonded"] = History{g2, cat(empty(1, 1), jail0, []BlockSpec{blk(tx(rm(adminID, 1)))}, empty(2, 1))}
	out["P12-duplicate-applications"] = History{g3, cat(empty(1, 1), []BlockSpec{blk(tx(createMsg(3, 3))), blk(tx(createMsg(3, 3))), blk(tx(createMsg(4, 3))),
		blk(tx(sp(adminID, 3, 2*M, true))), blk(tx(sp(adminID, 4, 2*M, true)))}, empty(2, 1), []BlockSpec{blk(tx(rm(adminID, 3)))}, empty(3, 1))}
	out["P12b-application-with-active-key"] = History{g3, cat(empty(1, 1), []BlockSpec{blk(tx(createMsg(3, 0))), blk(tx(createMsg(0, 5)))}, empty(2, 1))}
	badp := paramTuple{Unbonding: int64(30e9), MaxVals: 0, MaxEntries: 7, Hist: 10000, Denom: "stake", MinComm: bigFromStr("0")}
	out["P13-max-validators-zero"] = History{g3, cat(empty(1, 1), []BlockSpec{blk(tx(MsgSpec{Kind: "params", Sender: adminID, Params: &badp}))}, empty(3, 1))}
	out["P15-decrease"] = History{g3, cat(empty(1, 1), []BlockSpec{blk(tx(sp(adminID, 0, 9*M, false)))}, empty(3, 1))}
	out["P16-admit"] = History{g3, cat(empty(1, 1), []BlockSpec{blk(tx(createMsg(3, 3))), blk(tx(sp(adminID, 3, 5*M, false)))}, empty(3, 1))}
	out["P16b-admit-jail-unjail"] = History{g3, cat(empty(1, 1), []BlockSpec{blk(tx(createMsg(3, 3))), blk(tx(sp(adminID, 3, 5*M, false)))}, empty(2, 1),
		[]BlockSpec{{Dt: 1, Absent: []int{3}}, {Dt: 1, Absent: []int{3}}, {Dt: 1, Absent: []int{3}}, {Dt: 1, Absent: []int{3}}, {Dt: 1, Absent: []int{3}}, {Dt: 1, Absent: []int{3}}},
		[]BlockSpec{{Dt: 10, Txs: []TxSpec{tx(MsgSpec{Kind: "unjail", Sender: 3, Val: 3})}}}, empty(3, 1))}
	out["P17-raise-then-remove-same-block"] = History{g3, cat(empty(2, 1), []BlockSpec{blk(tx(sp(adminID, 0, 30_000_000*M, true)), tx(rm(adminID, 0)))}, empty(3, 1))}
	denomp := paramTuple{Unbonding: int64(30e9), MaxVals: 100, MaxEntries: 7, Hist: 10000, Denom: "utoken", MinComm: bigFromStr("0")}
	out["P18-bond-denom-change"] = History{g3, cat(empty(2, 1), []BlockSpec{blk(tx(MsgSpec{Kind: "params", Sender: adminID, Params: &denomp}))}, empty(1, 1),
		[]BlockSpec{blk(tx(sp(adminID, 0, 9*M, false)))}, []BlockSpec{blk(tx(rm(adminID, 1)))}, empty(3, 1))}
	out["S1-self-removal"] = History{g3, cat(empty(1, 1), []BlockSpec{blk(tx(rm(1, 1)))}, empty(2, 1), empty(3, 20))}
	out["S2-remove-then-readmit"] = History{g3, cat(empty(1, 1), []BlockSpec{blk(tx(rm(adminID, 1)))}, empty(2, 1), []BlockSpec{blk(tx(sp(adminID, 1, 7*M, true)))}, empty(2, 1), empty(3, 20))}
	out["S4-admit-and-remove-one-block"] = History{g3, cat(empty(2, 1), []BlockSpec{blk(tx(createMsg(3, 3)))}, []BlockSpec{blk(tx(sp(adminID, 3, 5*M, true)), tx(rm(adminID, 3)))}, empty(3, 1))}
	out["S5-admit-setpower-again-one-block"] = History{g3, cat(empty(2, 1), []BlockSpec{blk(tx(createMsg(3, 3)))}, []BlockSpec{blk(tx(sp(adminID, 3, 5*M, true)), tx(sp(adminID, 3, 7*M, true)), tx(sp(adminID, 3, 5*M, true)))}, empty(3, 1))}
	g4v := defaultGenesis()
	g4v.Tokens = []int64{10_000_000, 10_000_000, 10_000_000, 10_000_000}
	out["S6-setpower-in-the-block-of-jailing"] = History{g4v, cat(empty(2, 1),
		[]BlockSpec{{Dt: 1, Absent: []int{0}}, {Dt: 1, Absent: []int{0}}, {Dt: 1, Absent: []int{0}, Txs: []TxSpec{tx(sp(adminID, 0, 12*M, true))}}, {Dt: 1, Absent: []int{0}, Txs: []TxSpec{tx(sp(adminID, 0, 13*M, true))}},
			{Dt: 1, Absent: []int{0}, Txs: []TxSpec{tx(sp(adminID, 0, 14*M, true))}}, {Dt: 1, Absent: []int{0}, Txs: []TxSpec{tx(sp(adminID, 0, 15*M, true))}}, {Dt: 1, Absent: []int{0}, Txs: []TxSpec{tx(rm(adminID, 0))}}}, empty(3, 1))}
	out["S7-remove-in-the-block-of-jailing"] = History{g4v, cat(empty(2, 1),
		[]BlockSpec{{Dt: 1, Absent: []int{0}}, {Dt: 1, Absent: []int{0}}, {Dt: 1, Absent: []int{0}, Txs: []TxSpec{tx(rm(adminID, 0))}}}, empty(4, 1), empty(2, 20))}
	out["S8-self-remove-in-the-block-of-jailing"] = History{g4v, cat(empty(2, 1),
		[]BlockSpec{{Dt: 1, Absent: []int{1}}, {Dt: 1, Absent: []int{1}}, {Dt: 1, Absent: []int{1}, Txs: []TxSpec{tx(rm(1, 1))}}}, empty(4, 1), empty(2, 20))}
	minc := paramTuple{Unbonding: int64(30e9), MaxVals: 100, MaxEntries: 7, Hist: 10000, Denom: "stake", MinComm: mulFrac(3, 10)}
	lowRate := createMsg(3, 3)
	lowRate.Rate, lowRate.MaxRate = mulFrac(2, 10), mulFrac(5, 10)
	okRate := createMsg(4, 4)
	okRate.Rate, okRate.MaxRate = mulFrac(3, 10), mulFrac(3, 10)
	out["S9-chain-minimum-commission"] = History{g3, cat(empty(2, 1), []BlockSpec{blk(tx(MsgSpec{Kind: "params", Sender: adminID, Params: &minc}))},
		[]BlockSpec{blk(tx(lowRate)), blk(tx(okRate))}, empty(2, 1))}
	out["S10-first-block-messages"] = History{g3, cat([]BlockSpec{blk(tx(sp(user1ID, 0, 12*M, true)), tx(MsgSpec{Kind: "params", Sender: 1, Params: &minc}), tx(rm(2, 1)), tx(sp(adminID, 1, 11*M, false)))}, empty(3, 1))}
	// a slashed, jailed and unjailed validator restored to exactly its pre-slash amount
	out["S12-restore-after-downtime-slash"] = History{gj, cat(empty(1, 1), jail0, []BlockSpec{unjail0}, empty(1, 1), []BlockSpec{blk(tx(sp(adminID, 0, 10*M, false)))}, empty(3, 1))}
	// a validator jailed for longer than the unbonding period (Unbonded, still jailed) applies again with a new key
	reapply := createMsg(0, 5)
	out["S13-jailed-unbonded-validator-applies-again"] = History{gj, cat(empty(1, 1), jail0, empty(3, 20), []BlockSpec{blk(tx(reapply)), blk(tx(sp(adminID, 0, 9*M, true)))}, empty(3, 1))}
	// pending applications of two key types; a key reused behind an application of the other type
	{
		ks := newKeys()
		secp, ed := -1, -1
		for i := 3; i < poolSize; i++ {
			if ks.Pool[i].ConsPriv.Type() == "secp256k1" && secp < 0 {
				secp = i
			}
			if ks.Pool[i].ConsPriv.Type() == "ed25519" && ed < 0 {
				ed = i
			}
		}
		if secp >= 0 && ed >= 0 {
			out["S14-key-reused-behind-other-key-type"] = History{g3, cat(empty(1, 1), []BlockSpec{blk(tx(createMsg(3, secp))), blk(tx(createMsg(4, ed))), blk(tx(createMsg(5, ed))),
				blk(tx(sp(adminID, 4, 2*M, true))), blk(tx(sp(adminID, 5, 2*M, true)))}, empty(3, 1))}
			out["S14b-key-reused-behind-other-key-type"] = History{g3, cat(empty(1, 1), []BlockSpec{blk(tx(createMsg(3, ed))), blk(tx(createMsg(4, secp))), blk(tx(createMsg(5, secp))),
				blk(tx(sp(adminID, 3, 2*M, true))), blk(tx(sp(adminID, 5, 2*M, true))), blk(tx(sp(adminID, 4, 2*M, true)))}, empty(3, 1))}
		}
	}
	// every validator with power removed within one block (the last removal must be refused), by the admin and by themselves
	out["S16-remove-everybody-in-one-block"] = History{g3, cat(empty(2, 1), []BlockSpec{blk(tx(rm(adminID, 0)), tx(rm(adminID, 1)), tx(rm(adminID, 2)))}, empty(3, 1))}
	out["S16b-everybody-leaves-in-one-block"] = History{g3, cat(empty(2, 1), []BlockSpec{blk(tx(rm(2, 2)), tx(rm(0, 0)), tx(rm(1, 1)))}, empty(3, 1))}
	// a long pending queue: applications 3..7, one withdrawn, one admitted, one withdrawn again (order of the rest must stay)
	out["S17-long-pending-queue"] = History{g3, cat(empty(1, 1), []BlockSpec{blk(tx(createMsg(3, 3)), tx(createMsg(4, 4))), blk(tx(createMsg(5, 5)), tx(createMsg(6, 6)), tx(createMsg(7, 7))),
		blk(tx(MsgSpec{Kind: "removepending", Sender: adminID, Val: 4})), blk(tx(sp(adminID, 6, 2*M, true))), blk(tx(MsgSpec{Kind: "removepending", Sender: adminID, Val: 3}))}, empty(2, 1))}
	// a request for the power the validator already has, with a token amount that is not a multiple of 10^6
	out["S18-same-power-other-tokens"] = History{g3, cat(empty(2, 1), []BlockSpec{blk(tx(sp(adminID, 0, 10*M+500_000, true)))}, []BlockSpec{blk(tx(sp(adminID, 1, 12*M+500_000, true)))}, []BlockSpec{blk(tx(sp(adminID, 1, 12*M+700_000, true)))}, empty(2, 1))}
	// an application below a minimum commission that is raised while it is pending, then admitted
	low := createMsg(3, 3)
	low.Rate, low.MaxRate = mulFrac(1, 10), mulFrac(5, 10)
	out["S19-minimum-raised-over-a-pending-application"] = History{g3, cat(empty(2, 1), []BlockSpec{blk(tx(low)), blk(tx(MsgSpec{Kind: "params", Sender: adminID, Params: &minc})), blk(tx(sp(adminID, 3, 2*M, true)))}, empty(3, 1))}
	// a chain whose bond denom is not "stake"
	gd := defaultGenesis()
	gd.Denom = "upoa"
	out["S20-custom-bond-denom"] = History{gd, cat(empty(2, 1), []BlockSpec{blk(tx(sp(adminID, 0, 12*M, false))), blk(tx(sp(adminID, 0, 11*M, false))), blk(tx(createMsg(3, 3))), blk(tx(sp(adminID, 3, 2*M, true))), blk(tx(rm(adminID, 1)))}, empty(3, 1))}
	// two SetPower of one validator in a block that differ in the amount but not in the power
	out["S21-same-power-twice-other-amount"] = History{g3, cat(empty(2, 1), []BlockSpec{blk(tx(sp(adminID, 0, 14*M, true)), tx(sp(adminID, 0, 14*M+500_000, true)))}, empty(2, 1),
		[]BlockSpec{blk(tx(sp(adminID, 1, 9*M, true)), tx(sp(adminID, 1, 9*M+1, true)))}, empty(2, 1))}
	// two applications with one consensus key filed in one block, both admitted in one block
	out["S22-shared-key-admitted-together"] = History{g3, cat(empty(1, 1), []BlockSpec{blk(tx(createMsg(3, 3)), tx(createMsg(4, 3))), blk(tx(sp(adminID, 3, 2*M, true)), tx(sp(adminID, 4, 3*M, true)))}, empty(3, 1))}
	// ... and: the first admitted and jailed for downtime, then the second admitted (the jailed key must stay out)
	out["S23-shared-key-second-admitted-after-jailing"] = History{gj, cat(empty(1, 1), []BlockSpec{blk(tx(createMsg(4, 4)), tx(createMsg(5, 4))), blk(tx(sp(adminID, 4, 5*M, true)))}, empty(2, 1),
		[]BlockSpec{{Dt: 1, Absent: []int{4}}, {Dt: 1, Absent: []int{4}}, {Dt: 1, Absent: []int{4}}, {Dt: 1, Absent: []int{4}}, {Dt: 1, Absent: []int{4}}, {Dt: 1, Absent: []int{4}}},
		[]BlockSpec{blk(tx(sp(adminID, 5, 6*M, true)))}, empty(3, 1))}
	// an admission corrected within the same unit of power in the same block
	out["S24-admission-corrected-within-a-power-unit"] = History{g3, cat(empty(1, 1), []BlockSpec{blk(tx(createMsg(3, 3))), blk(tx(sp(adminID, 3, 5*M, true)), tx(sp(adminID, 3, 5*M+400_000, true)))}, empty(3, 1))}
	// double-sign evidence (x/evidence, same BeginBlock as x/slashing): heights are block indices + 1, times the block times (dt = 1)
	evAt := func(cons int, h int64, power int64) []EvSpec { return []EvSpec{{Cons: cons, Height: h, Time: h, Power: power}} }
	// ... the double signer is slashed, jailed and tombstoned; it cannot unjail; the admin cannot re-power it
	out["S25-double-sign-then-unjail-and-setpower"] = History{gj, cat(empty(3, 1), []BlockSpec{{Dt: 1, Evidence: evAt(0, 3, 10)}}, empty(1, 1),
		[]BlockSpec{{Dt: 10, Txs: []TxSpec{tx(MsgSpec{Kind: "unjail", Sender: 0, Val: 0})}}, blk(tx(sp(adminID, 0, 12*M, true)))}, empty(2, 1), empty(2, 30))}
	// ... removed by the admin in the very block that punishes it (x/staking still lists it as Bonded there)
	out["S26-double-sign-and-removal-same-block"] = History{gj, cat(empty(3, 1), []BlockSpec{{Dt: 1, Evidence: evAt(1, 3, 10), Txs: []TxSpec{tx(rm(adminID, 1))}}}, empty(2, 1),
		[]BlockSpec{{Dt: 10, Txs: []TxSpec{tx(MsgSpec{Kind: "unjail", Sender: 1, Val: 1})}}}, empty(2, 30), []BlockSpec{blk(tx(createMsg(1, 1))), blk(tx(sp(adminID, 1, 3*M, true)))}, empty(3, 1))}
	// ... evidence about a validator the admin removed (unbonding, no tokens), and a second entry about the same validator
	out["S27-double-sign-of-a-removed-validator"] = History{gj, cat(empty(2, 1), []BlockSpec{blk(tx(rm(adminID, 2)))}, empty(1, 1),
		[]BlockSpec{{Dt: 1, Evidence: evAt(2, 3, 10)}, {Dt: 1, Evidence: evAt(2, 3, 10)}}, empty(2, 1), empty(2, 30))}
	// ... about a validator jailed for downtime (slashed from the not-bonded pool once it is unbonding), then its unjail attempt
	out["S28-double-sign-of-a-jailed-validator"] = History{gj, cat(empty(1, 1), jail0, empty(1, 1), []BlockSpec{{Dt: 1, Evidence: evAt(0, 4, 10)}}, []BlockSpec{unjail0}, empty(2, 1), empty(2, 30))}
	// ... two entries in one block, one with a power far above what the validator holds (the burn is capped by its tokens)
	out["S29-two-double-signers-one-block"] = History{gj, cat(empty(3, 1), []BlockSpec{{Dt: 1, Evidence: []EvSpec{{Cons: 0, Height: 3, Time: 3, Power: 9_000_000_000_000}, {Cons: 1, Height: 2, Time: 2, Power: 1}}}}, empty(3, 1), empty(2, 30))}
	// a removed validator whose last votes are still counted misses them (bits written after the removal cleared its records),
	// waits out its unbonding period, applies again and is admitted: its missed-block counter and bitmap must start together
	out["S30-removed-validator-misses-its-last-votes-then-returns"] = History{gj, cat(empty(2, 1),
		[]BlockSpec{{Dt: 1, Absent: []int{0}, Txs: []TxSpec{tx(rm(adminID, 0))}}, {Dt: 1, Absent: []int{0}}, {Dt: 1, Absent: []int{0}}}, empty(3, 20),
		[]BlockSpec{blk(tx(createMsg(0, 0))), blk(tx(sp(adminID, 0, 9*M, true)))}, empty(2, 1),
		[]BlockSpec{{Dt: 1, Absent: []int{0}}, {Dt: 1}, {Dt: 1, Absent: []int{0}}, {Dt: 1}}, empty(2, 1))}
	upCreate := createMsg(3, 4)
	upCreate.Upper = true
	upSp := sp(adminID, 3, 2*M, true)
	upSp.Upper = true
	out["S15-same-operator-upper-case-spelling"] = History{g3, cat(empty(1, 1), []BlockSpec{blk(tx(createMsg(3, 3))), blk(tx(upCreate)), blk(tx(upSp)), blk(tx(sp(adminID, 3, 3*M, true)))}, empty(3, 1))}
	out["S11-setpower-params-setpower-one-block"] = History{g3, cat(empty(2, 1), []BlockSpec{blk(tx(sp(adminID, 0, 14*M, false)), tx(MsgSpec{Kind: "params", Sender: adminID, Params: &minc}), tx(sp(adminID, 1, 15*M, false)))}, empty(2, 1))}
	out["S3-non-admin"] = History{g3, cat(empty(1, 1), []BlockSpec{blk(tx(sp(user1ID, 0, 12*M, false)), tx(rm(2, 1)), tx(MsgSpec{Kind: "removepending", Sender: 1, Val: 3}))}, empty(2, 1))}
	return out
}

func writeLines(path string, lines []string) error {
	f, err := os.Create(path)
	if err != nil {
		return err
	}
	defer f.Close()
	w := bufio.NewWriter(f)
	for _, l := range lines {
		w.WriteString(l)
		w.WriteByte('\n')
	}
	return w.Flush()
}

type histOut struct {
	Name     string    `json:"name"`
	History  History   `json:"history"`
	Failures []Failure `json:"failures"`
	Blocks   int       `json:"blocks"`
	Tags     []string  `json:"tags"`
}

func traceProjection(tr *Trace) []string {
	lines := []string{"H 0"}
	ups := append([][2]int64(nil), tr.InitUp...)
	sort.Slice(ups, func(a, b int) bool { return ups[a][0] < ups[b][0] })
	u := "INITUPD"
	for _, x := range ups {
		u += fmt.Sprintf(" %d %d", x[0], x[1])
	}
	lines = append(lines, u)
	lines = append(lines, tr.Init.Lines()...)
	for _, bt := range tr.Blocks {
		lines = append(lines, bt.ProjectionLines()...)
	}
	return lines
}

func cmdL1(args []string) error {
	var seed int64 = 1
	n := 0
	profile := "mixed"
	outDir := "."
	histFile := ""
	only := ""
	restarts, twin := false, false
	focusFile := "" // a file of histories (one JSON object {"name","history"} per line): run these, every failing tx twin-executed
	for i := 0; i+1 < len(args); i += 2 {
		switch args[i] {
		case "-seed":
			fmt.Sscan(args[i+1], &seed)
		case "-n":
			fmt.Sscan(args[i+1], &n)
		case "-profile":
			profile = args[i+1]
		case "-out":
			outDir = args[i+1]
		case "-hist":
			histFile = args[i+1]
		case "-only":
			only = args[i+1]
		case "-focus":
			focusFile = args[i+1]
		case "-invariants":
			evalInvariants = args[i+1] == "1"
		case "-restarts":
			restarts = args[i+1] == "1"
		case "-twin":
			twin = args[i+1] == "1"
		}
	}
	keys := newKeys()
	os.MkdirAll(outDir, 0o755)
	type item struct {
		name string
		h    History
	}
	var items []item
	if focusFile != "" {
		data, err := os.ReadFile(focusFile)
		if err != nil {
			return err
		}
		twinAll = true
		for _, line := range strings.Split(string(data), "\n") {
			if strings.TrimSpace(line) == "" {
				continue
			}
			var rec struct {
				Name    string  `json:"name"`
				History History `json:"history"`
			}
			if err := json.Unmarshal([]byte(line), &rec); err != nil {
				return err
			}
			items = append(items, item{rec.Name, rec.History})
		}
	} else if histFile != "" {
		data, err := os.ReadFile(histFile)
		if err != nil {
			return err
		}
		var h History
		var wrap struct {
			Minimal struct {
				History *History `json:"history"`
			} `json:"minimal"`
			History *History `json:"history"`
		}
		if err := json.Unmarshal(data, &wrap); err == nil && wrap.Minimal.History != nil {
			h = *wrap.Minimal.History // a replay file written by check.py
		} else if err == nil && wrap.History != nil {
			h = *wrap.History
		} else if err := json.Unmarshal(data, &h); err != nil {
			return err
		}
		items = append(items, item{filepath.Base(histFile), h})
	} else {
		d := directedHistories()
		var names []string
		for k := range d {
			names = append(names, k)
		}
		sort.Strings(names)
		for _, k := range names {
			if only == "" || strings.HasPrefix(k, only) {
				items = append(items, item{k, d[k]})
			}
		}
		r := rand.New(rand.NewSource(seed))
		for i := 0; i < n; i++ {
			items = append(items, item{fmt.Sprintf("%s-%d-%d", profile, seed, i), genHistory(r, profile)})
		}
	}
	var sxLines, projLines []string
	fout, err := os.Create(filepath.Join(outDir, "l1.jsonl"))
	if err != nil {
		return err
	}
	defer fout.Close()
	enc := json.NewEncoder(fout)
	for i, it := range items {
		if os.Getenv("VERIF_DEBUG") != "" {
			bz, _ := json.Marshal(it.h)
			fmt.Fprintln(os.Stderr, "RUN", it.name, string(bz))
		}
		tr, _, err := RunHistory(keys, it.h, nil)
		if err != nil {
			return fmt.Errorf("%s: %w", it.name, err)
		}
		// report the effective history (absentees CometBFT's liveness rule allows, normalised messages)
		eff := History{Genesis: it.h.Genesis}
		wantAbs, gotAbs := 0, 0
		for _, b := range it.h.Blocks {
			wantAbs += len(b.Absent)
		}
		for _, bt := range tr.Blocks {
			eff.Blocks = append(eff.Blocks, bt.Spec)
			gotAbs += len(bt.Spec.Absent)
		}
		if gotAbs < wantAbs && !strings.Contains(it.name, "-") == false && (strings.HasPrefix(it.name, "P") || strings.HasPrefix(it.name, "S")) && len(tr.Blocks) == len(it.h.Blocks) {
			// a directed scenario that loses its downtime to the liveness rule does not exercise what it was written for
			fmt.Fprintf(os.Stderr, "WARNING directed history %s: %d of %d absences dropped by the liveness rule\n", it.name, wantAbs-gotAbs, wantAbs)
		}
		it.h = eff
		fs := Monitors(it.h, tr)
		rr := rand.New(rand.NewSource(seed*7919 + int64(i)))
		if restarts {
			fs = append(fs, restartMonitor(keys, it.h, tr, rr)...)
		}
		if twin {
			fs = append(fs, twinMonitor(keys, it.h, tr, rr)...)
		}
		fs = dedupe(fs)
		sxLines = append(sxLines, it.h.Sx())
		projLines = append(projLines, fmt.Sprintf("== %d", i))
		projLines = append(projLines, traceProjection(tr)...)
		enc.Encode(histOut{Name: it.name, History: it.h, Failures: fs, Blocks: len(tr.Blocks), Tags: historyTags(it.h, tr)})
	}
	if err := writeLines(filepath.Join(outDir, "l1.hist"), sxLines); err != nil {
		return err
	}
	return writeLines(filepath.Join(outDir, "l1.impl"), projLines)
}

// historyTags: what the history exercised (printed into the evidence as input distribution).
func historyTags(h History, tr *Trace) []string {
	tags := map[string]bool{}
	updBlocks, jailings, maturities := 0, 0, 0
	prev := tr.Init
	for _, bt := range tr.Blocks {
		if bt.After == nil {
			tags["halted"] = true
			break
		}
		if len(bt.Updates) > 0 {
			updBlocks++
		}
		for id, v := range bt.After.Vals {
			if pv, ok := prev.Vals[id]; ok {
				if !pv.Jailed && v.Jailed {
					jailings++
				}
				if pv.Status == 2 && v.Status == 1 {
					maturities++
				}
			}
		}
		for id, pv := range prev.Vals {
			if _, ok := bt.After.Vals[id]; !ok && pv.Status != 3 {
				maturities++
			}
		}
		for _, e := range bt.Spec.Evidence {
			tags["evidence"] = true
			if vid, ok := consOwner(prev)[e.Cons]; ok {
				pv, v := prev.Vals[vid], bt.After.Vals[vid]
				switch {
				case pv != nil && pv.Status == 1:
					tags["evidence:unbonded-ignored"] = true
				case prev.Sign[e.Cons] != nil && prev.Sign[e.Cons].Tomb:
					tags["evidence:already-tombstoned"] = true
				case pv != nil && pv.Jailed:
					tags["evidence:on-jailed"] = true
				case pv != nil && v != nil && !v.Jailed:
					tags["evidence:stale-ignored"] = true
				default:
					tags["evidence:jails"] = true
				}
				if pv != nil && v != nil && v.Tokens != pv.Tokens {
					tags["evidence:slashed"] = true
				}
			}
			for _, t := range bt.Spec.Txs {
				for _, m := range t.Msgs {
					if vid, ok := consOwner(prev)[e.Cons]; ok && m.Val == vid && (m.Kind == "setpower" || m.Kind == "remove" || m.Kind == "unjail" || m.Kind == "create") {
						tags["evidence:operation-on-double-signer-same-block"] = true
					}
				}
			}
		}
		seen := map[int]int{}
		for i, t := range bt.Spec.Txs {
			for _, m := range t.Msgs {
				tags["op:"+m.Kind] = true
				if i < len(bt.TxOut) {
					tags["out:"+m.Kind+":"+bt.TxOut[i]] = true
				}
				if m.Kind == "setpower" || m.Kind == "remove" {
					seen[m.Val]++
					if seen[m.Val] > 1 {
						tags["same-block-repeat"] = true
					}
				}
			}
		}
		prev = bt.After
	}
	if updBlocks >= 2 {
		tags["updates>=2blocks"] = true
	}
	if jailings > 0 {
		tags["jailing"] = true
	}
	if maturities > 0 {
		tags["maturity"] = true
	}
	var out []string
	for k := range tags {
		out = append(out, k)
	}
	sort.Strings(out)
	return out
}

