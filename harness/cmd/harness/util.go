package main

import (
	"errors"
	"fmt"
	"math/big"
	"math/rand"
	"strings"

	errorsmod "cosmossdk.io/errors"
)

// codespace index used by both the model (Base.v: err_code) and the harness.
var codespaceIdx = map[string]int{"poa": 0, "sdk": 1, "staking": 2, "slashing": 3, "undefined": 4}

// errClass maps a Go error to the model's outcome vocabulary.
func errClass(err error) string {
	if err == nil {
		return "pass"
	}
	cs, code, _ := errorsmod.ABCIInfo(err, false)
	idx, ok := codespaceIdx[cs]
	if !ok {
		idx = 9
		// keep codespace visible for diagnosis
		return fmt.Sprintf("err %d %d #%s", idx, code, cs)
	}
	return fmt.Sprintf("err %d %d", idx, code)
}

var errPanic = errors.New("panic")

// catch runs f and converts a panic into errPanic.
func catch(f func() error) (err error) {
	defer func() {
		if r := recover(); r != nil {
			err = fmt.Errorf("%w: %v", errPanic, r)
		}
	}()
	return f()
}

func outcomeOf(err error) string {
	if err != nil && errors.Is(err, errPanic) {
		return "panic"
	}
	return errClass(err)
}

func sxBool(b bool) string {
	if b {
		return "true"
	}
	return "false"
}

func sxOptBig(b *big.Int) string {
	if b == nil {
		return "None"
	}
	return "(Some " + b.String() + ")"
}

func sxList(items []string) string { return "[" + strings.Join(items, " ") + "]" }

func pick[T any](r *rand.Rand, xs []T) T { return xs[r.Intn(len(xs))] }

var ten18 = new(big.Int).Exp(big.NewInt(10), big.NewInt(18), nil)

func bigFromStr(s string) *big.Int { b, _ := new(big.Int).SetString(s, 10); return b }
