package main

import (
	"fmt"
	"os"
	"path/filepath"
)

// cmdFactgen writes coq/Extracted/*.v: tables read off the running code (reflection, registries,
// behavioural probes), so that the Tie theorems compare the model's own tables with them.
func cmdFactgen(args []string) error {
	out := "."
	for i := 0; i+1 < len(args); i += 2 {
		if args[i] == "-out" {
			out = args[i+1]
		}
	}
	if err := os.MkdirAll(out, 0o755); err != nil {
		return err
	}
	files := map[string]func() (string, error){}
	for name, gen := range factGenerators {
		files[name] = gen
	}
	for name, gen := range files {
		txt, err := gen()
		if err != nil {
			return fmt.Errorf("%s: %w", name, err)
		}
		p := filepath.Join(out, name)
		// do not touch unchanged files (keeps the Coq build incremental)
		if old, err := os.ReadFile(p); err == nil && string(old) == txt {
			continue
		}
		if err := os.WriteFile(p, []byte(txt), 0o644); err != nil {
			return err
		}
	}
	return nil
}

var factGenerators = map[string]func() (string, error){}
