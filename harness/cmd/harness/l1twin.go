package main

import (
	"bytes"
	"fmt"
	"math/rand"
	"sort"
	"strings"
)

// restartMonitor (C12, and "queries never modify state" of C18): the same history on a fresh node that
// nobody queries, and on a node torn down and re-created from its database at a random subset of
// commit boundaries, must give byte-identical app hashes, tx results and validator updates.
func restartMonitor(keys *Keys, h History, ref *Trace, r *rand.Rand) []Failure {
	var fs []Failure
	cmp := func(name string, tr *Trace) {
		for i, bt := range ref.Blocks {
			if i >= len(tr.Blocks) {
				fs = append(fs, Failure{"C12", "C12/" + name + "/shorter-run", bt.Height, "reference ran further"})
				return
			}
			o := tr.Blocks[i]
			switch {
			case bt.Halt != o.Halt:
				fs = append(fs, Failure{"C12", "C12/" + name + "/halt-differs", bt.Height, bt.Halt + " vs " + o.Halt})
			case !bytes.Equal(bt.AppHash, o.AppHash):
				fs = append(fs, Failure{"C12", "C12/" + name + "/apphash-differs", bt.Height, fmt.Sprintf("%X vs %X; stores %v vs %v", bt.AppHash, o.AppHash, bt.Hashes, o.Hashes)})
				if name == "unqueried-node" {
					fs = append(fs, Failure{"C18", "C18/queries-change-state", bt.Height, "node that is queried diverges from one that is not"})
				}
			case strings.Join(bt.TxOut, "|") != strings.Join(o.TxOut, "|"):
				fs = append(fs, Failure{"C12", "C12/" + name + "/tx-results-differ", bt.Height, fmt.Sprint(bt.TxOut, o.TxOut)})
			case strings.Join(bt.ResDet, "|") != strings.Join(o.ResDet, "|"):
				// code, data, gas wanted, gas used: what CometBFT hashes into the next header's LastResultsHash
				fs = append(fs, Failure{"C12", "C12/" + name + "/hashed-tx-result-fields-differ", bt.Height, fmt.Sprint(bt.ResDet, o.ResDet)})
			case fmt.Sprint(bt.Updates) != fmt.Sprint(o.Updates):
				fs = append(fs, Failure{"C12", "C12/" + name + "/validator-updates-differ", bt.Height, fmt.Sprint(bt.Updates, o.Updates)})
			default:
				continue
			}
			return
		}
	}
	var hints [][]bool
	for _, bt := range ref.Blocks {
		hints = append(hints, bt.AnteOK)
	}
	if tr, _, err := RunHistoryOpts(keys, h, RunOpts{NoSnap: true}); err == nil {
		cmp("unqueried-node", tr)
	}
	at := map[int64]bool{}
	for i := range h.Blocks {
		if r.Intn(3) == 0 {
			at[int64(i+1)] = true
		}
	}
	if len(h.Blocks) <= 12 { // short histories: every boundary
		for i := range h.Blocks {
			at[int64(i+1)] = true
		}
	}
	if tr, _, err := RunHistoryOpts(keys, h, RunOpts{NoSnap: true, RestartAt: at, AnteHints: hints}); err == nil {
		cmp("restarted-node", tr)
	}
	return fs
}

// twinMonitor (C06, C01): for failing transactions of the history, the chain without that
// transaction must commit the same per-module stores (and the same projected state apart from
// sequence numbers) at that height.
// twinAll: twin-execute every failing transaction of a history, not three of them (focused search, -focus)
var twinAll bool

func twinMonitor(keys *Keys, h History, ref *Trace, r *rand.Rand) []Failure {
	type loc struct{ b, t int }
	var failing []loc
	for bi, bt := range ref.Blocks {
		for ti, o := range bt.TxOut {
			if o != "pass" && o != "unsignable" && ti < len(bt.Spec.Txs) {
				failing = append(failing, loc{bi, ti})
			}
		}
	}
	r.Shuffle(len(failing), func(i, j int) { failing[i], failing[j] = failing[j], failing[i] })
	// a failed transaction can only leave a trace if something ran before the failure: transactions with several messages and
	// transactions refused late in their handler (the per-block limit, the same-power test) come first; the rest in random order
	risk := func(l loc) int {
		o := ref.Blocks[l.b].TxOut[l.t]
		switch {
		case len(ref.Blocks[l.b].Spec.Txs[l.t].Msgs) > 1:
			return 0
		case o == "err 0 4" || strings.HasPrefix(o, "err 4 "): // poa.ErrUnsafePower; plain errors (same power, last validator)
			return 1
		}
		return 2
	}
	sort.SliceStable(failing, func(i, j int) bool { return risk(failing[i]) < risk(failing[j]) })
	if len(failing) > 3 && !twinAll {
		failing = failing[:3]
	}
	sort.Slice(failing, func(i, j int) bool { return failing[i].b < failing[j].b })
	var fs []Failure
	for _, l := range failing {
		tw := History{Genesis: h.Genesis}
		for bi, bt := range ref.Blocks {
			b := bt.Spec
			if bi == l.b {
				nb := BlockSpec{Dt: b.Dt, Absent: b.Absent, Evidence: b.Evidence}
				for ti, t := range b.Txs {
					if ti != l.t {
						nb.Txs = append(nb.Txs, t)
					}
				}
				b = nb
			}
			tw.Blocks = append(tw.Blocks, b)
			if bi == l.b+1 { // one block further: traces that only surface in the next BeginBlock
				break
			}
		}
		tr, _, err := RunHistoryOpts(keys, tw, RunOpts{})
		if err != nil || len(tr.Blocks) <= l.b {
			continue
		}
		rb, ob := ref.Blocks[l.b], tr.Blocks[l.b]
		if rb.After == nil || ob.After == nil {
			continue
		}
		// the following block, when both chains have it
		var rb2, ob2 *BlockTrace
		if l.b+1 < len(ref.Blocks) && l.b+1 < len(tr.Blocks) && ref.Blocks[l.b+1].After != nil && tr.Blocks[l.b+1].After != nil {
			rb2, ob2 = ref.Blocks[l.b+1], tr.Blocks[l.b+1]
		}
		txs := rb.Spec.Txs[l.t]
		kinds := []string{}
		for _, m := range txs.Msgs {
			kinds = append(kinds, m.Kind)
		}
		what := strings.Join(kinds, "+") + ":" + strings.Split(rb.TxOut[l.t], " #")[0]
		gatedNonAdmin := false
		for _, m := range txs.Msgs {
			if (m.Kind == "setpower" || m.Kind == "removepending" || m.Kind == "params" || (m.Kind == "remove" && m.Sender != m.Val)) && m.Sender != adminID {
				gatedNonAdmin = true
			}
		}
		var diffStores []string
		for _, name := range hashedStores {
			if rb.Hashes[name] != ob.Hashes[name] {
				diffStores = append(diffStores, name)
			}
		}
		if len(diffStores) > 0 {
			detail := fmt.Sprintf("block %d tx %d (%s): stores %v differ from the chain without the transaction", rb.Height, l.t, what, diffStores)
			fs = append(fs, Failure{"C06", "C06/failed-tx-left-trace:" + strings.Join(diffStores, "+"), rb.Height, detail})
			if gatedNonAdmin {
				fs = append(fs, Failure{"C01", "C01/rejected-non-admin-message-changed-state:" + strings.Join(diffStores, "+"), rb.Height, detail})
			}
			continue
		}
		// projected state apart from sequence numbers and the tx list itself
		strip := func(ls []string) string {
			var out []string
			for _, x := range ls {
				if !strings.HasPrefix(x, "SEQ") {
					out = append(out, x)
				}
			}
			return strings.Join(out, "\n")
		}
		if strip(rb.After.Lines()) != strip(ob.After.Lines()) || fmt.Sprint(rb.Updates) != fmt.Sprint(ob.Updates) {
			fs = append(fs, Failure{"C06", "C06/failed-tx-changed-projection", rb.Height, fmt.Sprintf("block %d tx %d (%s)", rb.Height, l.t, what)})
			continue
		}
		// one block later (store hashes legitimately differ there: x/staking records the header, whose app hash includes the
		// signer's sequence number): the projected state must still agree
		if rb2 != nil && (strip(rb2.After.Lines()) != strip(ob2.After.Lines()) || fmt.Sprint(rb2.Updates) != fmt.Sprint(ob2.Updates)) {
			detail := fmt.Sprintf("block %d tx %d (%s): the state one block later differs from the chain without the transaction", rb.Height, l.t, what)
			fs = append(fs, Failure{"C06", "C06/failed-tx-left-trace-visible-in-next-block", rb2.Height, detail})
			if gatedNonAdmin {
				fs = append(fs, Failure{"C01", "C01/rejected-non-admin-message-changed-state:next-block", rb2.Height, detail})
			}
		}
	}
	return fs
}
