package main

import (
	"fmt"
	"math/big"
	"strings"
)

// Sx is a parsed s-expression: atom, (list) or [bracket list].
type Sx struct {
	Atom  string
	Items []*Sx
	Brack bool
	IsAtom bool
}

func parseSx(s string) (*Sx, error) {
	pos := 0
	var item func() (*Sx, error)
	skip := func() {
		for pos < len(s) && strings.ContainsRune(" \t\r\n", rune(s[pos])) {
			pos++
		}
	}
	item = func() (*Sx, error) {
		skip()
		if pos >= len(s) {
			return nil, fmt.Errorf("eof")
		}
		switch s[pos] {
		case '(', '[':
			closer := byte(')')
			if s[pos] == '[' {
				closer = ']'
			}
			x := &Sx{Brack: s[pos] == '['}
			pos++
			for {
				skip()
				if pos >= len(s) {
					return nil, fmt.Errorf("eof in list")
				}
				if s[pos] == closer {
					pos++
					return x, nil
				}
				it, err := item()
				if err != nil {
					return nil, err
				}
				x.Items = append(x.Items, it)
			}
		case ')', ']':
			return nil, fmt.Errorf("unexpected close at %d", pos)
		}
		st := pos
		for pos < len(s) && !strings.ContainsRune(" \t\r\n()[]", rune(s[pos])) {
			pos++
		}
		return &Sx{Atom: s[st:pos], IsAtom: true}, nil
	}
	x, err := item()
	if err != nil {
		return nil, err
	}
	skip()
	if pos != len(s) {
		return nil, fmt.Errorf("trailing input at %d", pos)
	}
	return x, nil
}

func (x *Sx) head() string {
	if x.IsAtom {
		return x.Atom
	}
	if len(x.Items) > 0 && x.Items[0].IsAtom {
		return x.Items[0].Atom
	}
	return ""
}

func (x *Sx) arg(i int) *Sx { return x.Items[i+1] }

func (x *Sx) optBig() *big.Int {
	if x.IsAtom {
		return nil // None
	}
	return bigFromStr(x.arg(0).Atom)
}

func (x *Sx) boolean() bool { return x.Atom == "true" }

func treeFromSx(x *Sx) (*Tree, error) {
	switch x.head() {
	case "Leaf":
		l := x.arg(0)
		switch l.head() {
		case "LStaking":
			return &Tree{Leaf: "stk:" + l.arg(0).Atom}, nil
		case "LEditValidator":
			return &Tree{Leaf: "edit", Rate: l.arg(0).optBig()}, nil
		case "LPoaCreate":
			return &Tree{Leaf: "poacreate", Rate: l.arg(0).optBig()}, nil
		case "LWithdrawReward":
			return &Tree{Leaf: "withdraw"}, nil
		case "LOther":
			return &Tree{Leaf: "other:0"}, nil
		}
		return nil, fmt.Errorf("unknown leaf %q", l.head())
	case "Wrap":
		t := &Tree{Wrap: x.arg(0).Atom, UnpackOK: x.arg(1).boolean()}
		for _, c := range x.arg(2).Items {
			ct, err := treeFromSx(c)
			if err != nil {
				return nil, err
			}
			t.Children = append(t.Children, ct)
		}
		return t, nil
	}
	return nil, fmt.Errorf("unknown msg %q", x.head())
}

func treesFromSx(x *Sx) ([]*Tree, error) {
	var out []*Tree
	for _, it := range x.Items {
		t, err := treeFromSx(it)
		if err != nil {
			return nil, err
		}
		out = append(out, t)
	}
	return out, nil
}
