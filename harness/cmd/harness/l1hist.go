package main

import (
	"fmt"
	"math/big"
	"strings"
	"time"

	sdkmath "cosmossdk.io/math"
	sdk "github.com/cosmos/cosmos-sdk/types"
	banktypes "github.com/cosmos/cosmos-sdk/x/bank/types"
	slashingtypes "github.com/cosmos/cosmos-sdk/x/slashing/types"

	"github.com/strangelove-ventures/poa"
)

// MsgSpec is one top-level message of a transaction, in harness vocabulary (ids, not addresses).
type MsgSpec struct {
	Kind   string `json:"kind"`             // setpower | remove | removepending | create | params | unjail | send | tree
	Sender int    `json:"sender"`           // account id that signs (and is the message's sender field)
	Val    int    `json:"val,omitempty"`    // validator id (unknownVal = absent, -2 = malformed)
	Power  uint64 `json:"power,omitempty"`  // setpower
	Unsafe bool   `json:"unsafe,omitempty"` // setpower
	Upper  bool   `json:"upper,omitempty"`  // spell the validator address in upper case (the same address: bech32 allows it)
	// create
	Cons    int      `json:"cons,omitempty"` // consensus key id
	Moniker int      `json:"moniker_len,omitempty"`
	Rate    *big.Int `json:"rate,omitempty"`
	MaxRate *big.Int `json:"max_rate,omitempty"`
	MaxChg  *big.Int `json:"max_chg,omitempty"`
	MSD     int64    `json:"msd,omitempty"`
	// params
	Params *paramTuple `json:"params,omitempty"`
	// tree: an arbitrary (possibly nested) message, for the ante decorators
	Tree *Tree `json:"tree,omitempty"`
}

type TxSpec struct {
	Msgs []MsgSpec `json:"msgs"`
}

// EvSpec: one Misbehavior entry (duplicate vote) of a block: consensus key id, infraction height, infraction time
// (seconds since genesis), the voting power CometBFT attributes to the validator.
type EvSpec struct {
	Cons   int   `json:"cons"`
	Height int64 `json:"height"`
	Time   int64 `json:"time"`
	Power  int64 `json:"power"`
}

type BlockSpec struct {
	Dt       int64    `json:"dt"`
	Absent   []int    `json:"absent,omitempty"`   // consensus key ids that do not sign the previous block
	Evidence []EvSpec `json:"evidence,omitempty"` // double-sign evidence delivered with the block
	Txs      []TxSpec `json:"txs,omitempty"`
}

type History struct {
	Genesis Genesis     `json:"genesis"`
	Blocks  []BlockSpec `json:"blocks"`
}

func (t TxSpec) signers() []int {
	var out []int
	seen := map[int]bool{}
	for _, m := range t.Msgs {
		if !seen[m.Sender] {
			seen[m.Sender] = true
			out = append(out, m.Sender)
		}
	}
	return out
}

// ---- model syntax (mirrors the Coq constructors of Model/App.v) ----

func (m MsgSpec) Sx() string {
	switch m.Kind {
	case "setpower":
		return fmt.Sprintf("(MSetPower %d %d %d %s)", m.Sender, m.Val, m.Power, sxBool(m.Unsafe))
	case "remove":
		return fmt.Sprintf("(MRemoveValidator %d %d)", m.Sender, m.Val)
	case "removepending":
		return fmt.Sprintf("(MRemovePending %d %d)", m.Sender, m.Val)
	case "create":
		return fmt.Sprintf("(MCreateValidator %d %d %d %s %s %s %d)", m.Val, m.Cons, m.Moniker, sxOptBig(m.Rate), sxOptBig(m.MaxRate), sxOptBig(m.MaxChg), m.MSD)
	case "params":
		return fmt.Sprintf("(MUpdateParams %d %s)", m.Sender, m.Params.Sx())
	case "unjail":
		return fmt.Sprintf("(MUnjail %d)", m.Val)
	case "send":
		return fmt.Sprintf("(MOther %d)", m.Sender)
	case "tree":
		return fmt.Sprintf("(MTree %d %s)", m.Sender, m.Tree.Sx())
	}
	panic("unknown msg kind " + m.Kind)
}

func (t TxSpec) Sx() string {
	ms := make([]string, len(t.Msgs))
	for i, m := range t.Msgs {
		ms[i] = m.Sx()
	}
	return sxList(ms)
}

func (b BlockSpec) Sx() string {
	abs := make([]string, len(b.Absent))
	for i, a := range b.Absent {
		abs[i] = fmt.Sprint(a)
	}
	txs := make([]string, len(b.Txs))
	for i, t := range b.Txs {
		txs[i] = t.Sx()
	}
	evs := make([]string, len(b.Evidence))
	for i, e := range b.Evidence {
		evs[i] = fmt.Sprintf("(Build_evidence %d %d %d %d)", e.Cons, e.Height, e.Time, e.Power)
	}
	return fmt.Sprintf("(Build_block %d %s %s %s)", b.Dt, sxList(abs), sxList(evs), sxList(txs))
}

func (g Genesis) Sx() string {
	toks := make([]string, len(g.Tokens))
	for i, t := range g.Tokens {
		toks[i] = fmt.Sprint(t)
	}
	return fmt.Sprintf("(Build_genesis %s %d %d %d %d %d %d %d)", sxList(toks), g.MaxVals, g.UnbondSecs, g.Window, g.MinSignedPc, g.JailSecs, g.SlashDownBp, g.SlashDblBp)
}

func (h History) Sx() string {
	bs := make([]string, len(h.Blocks))
	for i, b := range h.Blocks {
		bs[i] = b.Sx()
	}
	return fmt.Sprintf("(Build_history %s %s)", h.Genesis.Sx(), sxList(bs))
}

// ---- concrete messages ----

// normalize: what a signed transaction can carry (a nil LegacyDec is "0" on the wire).
func (m *MsgSpec) normalize() {
	z := func(b **big.Int) {
		if *b == nil {
			*b = big.NewInt(0)
		}
	}
	if m.Kind == "create" {
		z(&m.Rate)
		z(&m.MaxRate)
		z(&m.MaxChg)
	}
	if m.Kind == "params" && m.Params != nil {
		p := *m.Params
		z(&p.MinComm)
		m.Params = &p
	}
	if (m.Kind == "create" || m.Kind == "unjail") && m.Val >= 0 && m.Val < poolSize {
		m.Sender = m.Val
	}
}

func (h *History) normalize() {
	for i := range h.Blocks {
		for j := range h.Blocks[i].Txs {
			for k := range h.Blocks[i].Txs[j].Msgs {
				h.Blocks[i].Txs[j].Msgs[k].normalize()
			}
		}
	}
}

// monikerOf: a moniker of exactly n bytes; lengths around the limit are spelled with multi-byte characters
func monikerOf(n int) string {
	if n >= 60 {
		return wideString(n)
	}
	return strings.Repeat("m", n)
}

// descOf: the description an application carries — five distinct fields (the model keeps the moniker only; the monitors
// compare all five with what the pending list and, after admission, the validator record hold)
func descOf(m MsgSpec) poa.Description {
	if m.Moniker == 0 {
		return poa.Description{} // the empty description, which Validate refuses (the model's case "all lengths zero")
	}
	return poa.Description{Moniker: monikerOf(m.Moniker), Identity: fmt.Sprintf("id-%d", m.Val), Website: fmt.Sprintf("https://v%d.example", m.Val),
		SecurityContact: fmt.Sprintf("sec-%d@example", m.Val), Details: fmt.Sprintf("details of %d/%d", m.Val, m.Cons)}
}

func descKey(moniker, identity, website, security, details string) string {
	return strings.Join([]string{moniker, identity, website, security, details}, "\x1f")
}

func (c *Chain) buildMsg(m MsgSpec) (sdk.Msg, error) {
	k := c.Keys
	sender := k.accAddr(m.Sender).String()
	valStr := func(id int) string {
		if m.Upper {
			return strings.ToUpper(k.valAddrStr(id))
		}
		return k.valAddrStr(id)
	}
	switch m.Kind {
	case "setpower":
		return &poa.MsgSetPower{Sender: sender, ValidatorAddress: valStr(m.Val), Power: m.Power, Unsafe: m.Unsafe}, nil
	case "remove":
		return &poa.MsgRemoveValidator{Sender: sender, ValidatorAddress: valStr(m.Val)}, nil
	case "removepending":
		return &poa.MsgRemovePending{Sender: sender, ValidatorAddress: valStr(m.Val)}, nil
	case "create":
		msg := &poa.MsgCreateValidator{
			Description:       descOf(m),
			Commission:        poa.CommissionRates{Rate: optDec(m.Rate), MaxRate: optDec(m.MaxRate), MaxChangeRate: optDec(m.MaxChg)},
			MinSelfDelegation: sdkmath.NewInt(m.MSD),
			ValidatorAddress:  valStr(m.Val),
		}
		if m.Cons >= 0 && m.Cons < poolSize {
			msg.Pubkey = mustAny(k.Pool[m.Cons].ConsPriv.PubKey())
		}
		return msg, nil
	case "params":
		p := m.Params
		denom := p.Denom
		if denom == "stake" {
			denom = c.G.denom() // "stake" in a parameter tuple stands for the chain's bond denom
		}
		return &poa.MsgUpdateStakingParams{Sender: sender, Params: poa.StakingParams{
			UnbondingTime: time.Duration(p.Unbonding), MaxValidators: p.MaxVals, MaxEntries: p.MaxEntries,
			HistoricalEntries: p.Hist, BondDenom: denom, MinCommissionRate: optDec(p.MinComm)}}, nil
	case "unjail":
		return &slashingtypes.MsgUnjail{ValidatorAddr: k.valAddrStr(m.Val)}, nil
	case "send":
		return &banktypes.MsgSend{FromAddress: sender, ToAddress: k.accAddr(user2ID).String(), Amount: sdk.NewCoins(sdk.NewInt64Coin(c.G.denom(), 1))}, nil
	case "tree":
		return m.Tree.MsgSigned(sender, k), nil
	}
	return nil, fmt.Errorf("unknown msg kind %q", m.Kind)
}
