package main

import (
	"fmt"
	"sort"
	"strings"
	"time"

	abci "github.com/cometbft/cometbft/abci/types"
	cmtproto "github.com/cometbft/cometbft/proto/tendermint/types"
	cmttypes "github.com/cometbft/cometbft/types"
	"github.com/cosmos/gogoproto/proto"

	sdkmath "cosmossdk.io/math"
	sdk "github.com/cosmos/cosmos-sdk/types"
	authtypes "github.com/cosmos/cosmos-sdk/x/auth/types"
	stakingtypes "github.com/cosmos/cosmos-sdk/x/staking/types"

	"github.com/strangelove-ventures/poa"
	poakeeper "github.com/strangelove-ventures/poa/keeper"
)

type ValSnap struct {
	ID       int
	Cons     int
	Status   int // 1 unbonded 2 unbonding 3 bonded
	Jailed   bool
	Tokens   string
	Shares   string // LegacyDec as scaled integer
	UBHeight int64
	UBTime   int64 // seconds since genesis (only meaningful when unbonding)
	MSD      string
	Rate     string
	MaxRate  string
	MaxChg   string
	Desc     string // the five description fields, joined
	SelfDel  string // self-delegation shares ("" = none)
}

type SignSnap struct {
	Start, Index, JailedUntil, Missed int64
	BitMissed                         int64 // bits set in the missed-block bitmap
	Tomb                               bool
	Present                            bool
}

type PendSnap struct {
	Oper, Cons                  int
	Desc                        string // the five description fields, joined
	Tokens, Shares, MSD         string
	Rate, MaxRate, MaxChg       string
	Moniker                     string
	Status                      int
	Jailed                      bool
	KeyUsable                   bool
}

// evalInvariants: -invariants 1 evaluates every invariant registered with x/crisis after every block (exploration only: K3)
var evalInvariants bool

type Snapshot struct {
	Height     int64
	Now        int64 // block time, seconds since genesis
	Vals       map[int]*ValSnap
	Idx        [][2]int64 // (power, id) in iteration order
	Last       map[int]int64
	LastTotal  int64
	UBQ        []string
	Params     string
	MaxVals    int64
	Sign       map[int]*SignSnap // by cons key id
	Pending    []PendSnap
	Cached     uint64
	Abs        uint64
	Bonded     string
	NotBonded  string
	Supply     string
	CometNext  map[int]int64 // cons id -> power: the set CometBFT will use two blocks later
	QPower     map[int]string
	QAuthority string
	QPendingN  int
	QPending   []string // the pending query's entries: operator|cons key|tokens|msd|rates|description
	Seqs       map[int]uint64
	Seq0       map[int]uint64 // sequence numbers right after genesis (gentx signers start at 1)
	Dels       map[int]string // self-delegation shares by validator id
	Foreign    []string       // delegations that are not a pool validator's self-delegation
	Invariants []string // broken x/crisis invariants (route: message); only with -invariants 1 (observation K3, DESIGN.md §8)
}

func decScaled(d sdkmath.LegacyDec) string {
	if d.IsNil() {
		return "nil"
	}
	return d.BigInt().String()
}

func (c *Chain) relTime(t time.Time) int64 { return t.Unix() - genesisUnix }

func (c *Chain) consID(v interface{ GetConsAddr() ([]byte, error) }) int {
	ca, err := v.GetConsAddr()
	if err != nil {
		return -1
	}
	if id, ok := c.Keys.ByCons[string(ca)]; ok {
		return id
	}
	return -1
}

// Snap reads the committed state through keepers and the ABCI query path.
func (c *Chain) Snap() *Snapshot {
	ctx := c.Ctx()
	app := c.App
	s := &Snapshot{Height: c.Height, Now: c.Time.Unix() - genesisUnix, Vals: map[int]*ValSnap{}, Last: map[int]int64{}, Sign: map[int]*SignSnap{}, CometNext: map[int]int64{},
		QPower: map[int]string{}, Seqs: map[int]uint64{}, Seq0: c.seq0, Dels: map[int]string{}}
	vals, _ := app.StakingKeeper.GetAllValidators(ctx)
	for _, v := range vals {
		id := c.Keys.valID(v.OperatorAddress)
		vs := &ValSnap{ID: id, Cons: c.consID(v), Status: int(v.Status), Jailed: v.Jailed, Tokens: v.Tokens.String(), Shares: decScaled(v.DelegatorShares),
			UBHeight: v.UnbondingHeight, UBTime: c.relTime(v.UnbondingTime), MSD: v.MinSelfDelegation.String(),
			Rate: decScaled(v.Commission.Rate), MaxRate: decScaled(v.Commission.MaxRate), MaxChg: decScaled(v.Commission.MaxChangeRate),
			Desc: descKey(v.Description.Moniker, v.Description.Identity, v.Description.Website, v.Description.SecurityContact, v.Description.Details)}
		if v.Status != stakingtypes.Unbonding {
			// x/staking leaves stale unbonding time/height on re-bonded validators; they are not observable behaviour
		}
		s.Vals[id] = vs
	}
	dels, _ := app.StakingKeeper.GetAllDelegations(ctx)
	for _, d := range dels {
		vid := c.Keys.valID(d.ValidatorAddress)
		if vid >= 0 && vid < poolSize && d.DelegatorAddress == sdk.AccAddress(c.Keys.Pool[vid].Val).String() {
			s.Dels[vid] = decScaled(d.Shares)
			if vs, ok := s.Vals[vid]; ok {
				vs.SelfDel = decScaled(d.Shares)
			}
		} else {
			s.Foreign = append(s.Foreign, fmt.Sprintf("FOREIGN-DEL %s %d %s", d.DelegatorAddress, vid, decScaled(d.Shares)))
		}
	}
	it, err := app.StakingKeeper.ValidatorsPowerStoreIterator(ctx)
	if err == nil {
		for ; it.Valid(); it.Next() {
			oper := sdk.ValAddress(it.Value()).String()
			key := it.Key()
			// key = prefix(1) | power big-endian(8) | len(1) | inverted addr
			var p int64
			for _, b := range key[1:9] {
				p = p<<8 | int64(b)
			}
			s.Idx = append(s.Idx, [2]int64{p, int64(c.Keys.valID(oper))})
		}
		it.Close()
	}
	_ = app.StakingKeeper.IterateLastValidatorPowers(ctx, func(op sdk.ValAddress, power int64) bool {
		s.Last[c.Keys.valID(op.String())] = power
		return false
	})
	lt, _ := app.StakingKeeper.GetLastTotalPower(ctx)
	s.LastTotal = lt.Int64()
	qit, err := app.StakingKeeper.ValidatorQueueIterator(ctx, time.Unix(1<<40, 0), 1<<60)
	if err == nil {
		for ; qit.Valid(); qit.Next() {
			t, h, err := stakingtypes.ParseValidatorQueueKey(qit.Key())
			if err != nil {
				continue
			}
			var addrs stakingtypes.ValAddresses
			_ = app.AppCodec().Unmarshal(qit.Value(), &addrs)
			var ids []string
			for _, a := range addrs.Addresses {
				ids = append(ids, fmt.Sprint(c.Keys.valID(a)))
			}
			s.UBQ = append(s.UBQ, strings.TrimSpace(fmt.Sprintf("UBQ %d %d %s", c.relTime(t), h, strings.Join(ids, " "))))
		}
		qit.Close()
	}
	p, _ := app.StakingKeeper.GetParams(ctx)
	denomID := 1
	if p.BondDenom == c.G.denom() {
		denomID = 0
	}
	mc := decScaled(p.MinCommissionRate)
	if mc == "nil" {
		mc = "-1"
	}
	s.Params = fmt.Sprintf("%d %d %d %d %d %s", int64(p.UnbondingTime), p.MaxValidators, p.MaxEntries, p.HistoricalEntries, denomID, mc)
	s.MaxVals = int64(p.MaxValidators)
	for i, id := range c.Keys.Pool {
		info, err := app.SlashingKeeper.GetValidatorSigningInfo(ctx, id.Cons)
		if err != nil {
			continue
		}
		s.Sign[i] = &SignSnap{Present: true, Start: info.StartHeight, Index: info.IndexOffset, JailedUntil: c.relTime(info.JailedUntil), Missed: info.MissedBlocksCounter, Tomb: info.Tombstoned}
		_ = app.SlashingKeeper.IterateMissedBlockBitmap(ctx, id.Cons, func(_ int64, missed bool) bool {
			if missed {
				s.Sign[i].BitMissed++
			}
			return false
		})
	}
	pend, _ := app.POAKeeper.GetPendingValidators(ctx)
	for _, pv := range pend.Validators {
		ps := PendSnap{Oper: c.Keys.valID(pv.OperatorAddress), Cons: -1, Tokens: pv.Tokens.String(), Shares: decScaled(pv.DelegatorShares), MSD: pv.MinSelfDelegation.String(),
			Rate: decScaled(pv.Commission.CommissionRates.Rate), MaxRate: decScaled(pv.Commission.CommissionRates.MaxRate), MaxChg: decScaled(pv.Commission.CommissionRates.MaxChangeRate),
			Moniker: pv.Description.Moniker, Status: int(pv.Status), Jailed: pv.Jailed,
			Desc: descKey(pv.Description.Moniker, pv.Description.Identity, pv.Description.Website, pv.Description.SecurityContact, pv.Description.Details)}
		if pv.ConsensusPubkey != nil {
			if err := pv.UnpackInterfaces(app.InterfaceRegistry()); err == nil {
				sv := poa.ConvertPOAToStaking(pv)
				ps.Cons = c.consID(sv)
				ps.KeyUsable = ps.Cons >= 0
			}
		}
		s.Pending = append(s.Pending, ps)
	}
	s.Cached, _ = app.POAKeeper.GetCachedBlockPower(ctx)
	s.Abs, _ = app.POAKeeper.GetAbsoluteChangedInBlockPower(ctx)
	s.Bonded = app.BankKeeper.GetBalance(ctx, authtypes.NewModuleAddress(stakingtypes.BondedPoolName), p.BondDenom).Amount.String()
	s.NotBonded = app.BankKeeper.GetBalance(ctx, authtypes.NewModuleAddress(stakingtypes.NotBondedPoolName), p.BondDenom).Amount.String()
	s.Supply = app.BankKeeper.GetSupply(ctx, c.G.denom()).Amount.String()
	if c.Next != nil {
		for _, v := range c.Next.Validators {
			if id, ok := c.Keys.ByCons[string(v.Address)]; ok {
				s.CometNext[id] = v.VotingPower
			} else {
				s.CometNext[-1] = v.VotingPower
			}
		}
	}
	// queries through the ABCI query path of the running app
	for _, id := range []int{0, 1, 2, 3, 4, 5, 6, 7, unknownVal, -2} {
		s.QPower[id] = c.queryPower(c.Keys.valAddrStr(id))
	}
	var ar poa.QueryPoaAuthorityResponse
	if err := c.query("/strangelove_ventures.poa.v1.Query/PoaAuthority", &poa.QueryPoaAuthorityRequest{}, &ar); err == nil {
		if id, ok := c.Keys.ByAcc[ar.Authority]; ok {
			s.QAuthority = fmt.Sprint(id)
		} else {
			s.QAuthority = ar.Authority
		}
	} else {
		s.QAuthority = "error"
	}
	var pr poa.PendingValidatorsResponse
	if err := c.query("/strangelove_ventures.poa.v1.Query/PendingValidators", &poa.QueryPendingValidatorsRequest{}, &pr); err == nil {
		s.QPendingN = len(pr.Pending)
		for _, pv := range pr.Pending {
			cons := -1
			if pv.ConsensusPubkey != nil {
				if err := pv.UnpackInterfaces(app.InterfaceRegistry()); err == nil {
					cons = c.consID(poa.ConvertPOAToStaking(pv))
				}
			}
			s.QPending = append(s.QPending, fmt.Sprintf("%d|%d|%s|%s|%s|%s|%s|%s", c.Keys.valID(pv.OperatorAddress), cons, pv.Tokens.String(), pv.MinSelfDelegation.String(),
				decScaled(pv.Commission.CommissionRates.Rate), decScaled(pv.Commission.CommissionRates.MaxRate), decScaled(pv.Commission.CommissionRates.MaxChangeRate),
				descKey(pv.Description.Moniker, pv.Description.Identity, pv.Description.Website, pv.Description.SecurityContact, pv.Description.Details)))
		}
	} else {
		s.QPendingN = -1
	}
	for _, id := range []int{0, 1, 2, 3, 4, 5, 6, 7, adminID, user1ID} {
		_, s.Seqs[id] = c.accountNumSeq(id)
	}
	if evalInvariants {
		// every invariant the modules registered with x/crisis (what a node started with --inv-check-period asserts in EndBlock)
		for _, r := range app.CrisisKeeper.Routes() {
			var msg string
			var broken bool
			func() {
				defer func() {
					if rec := recover(); rec != nil {
						msg, broken = fmt.Sprint("panic: ", rec), true
					}
				}()
				msg, broken = r.Invar(ctx)
			}()
			if broken {
				if len(msg) > 300 {
					msg = msg[:300]
				}
				s.Invariants = append(s.Invariants, r.FullRoute()+": "+strings.ReplaceAll(msg, "\n", " "))
			}
		}
	}
	return s
}

func (c *Chain) query(path string, req, resp proto.Message) error {
	if c.Height == 0 {
		// no committed version to query yet: call the module's query server on InitChain's state
		qs := poakeeper.NewQueryServerImpl(c.App.POAKeeper)
		var out proto.Message
		var err error
		switch r := req.(type) {
		case *poa.QueryConsensusPowerRequest:
			out, err = qs.ConsensusPower(c.Ctx(), r)
		case *poa.QueryPoaAuthorityRequest:
			out, err = qs.PoaAuthority(c.Ctx(), r)
		case *poa.QueryPendingValidatorsRequest:
			out, err = qs.PendingValidators(c.Ctx(), r)
		}
		if err != nil {
			return err
		}
		bz, _ := proto.Marshal(out)
		return proto.Unmarshal(bz, resp)
	}
	bz, err := proto.Marshal(req)
	if err != nil {
		return err
	}
	var r *abci.ResponseQuery
	err = catch(func() error {
		var e error
		r, e = c.App.Query(nil, &abci.RequestQuery{Path: path, Data: bz})
		return e
	})
	if err != nil {
		return err
	}
	if r.Code != 0 {
		return fmt.Errorf("query code %d: %s", r.Code, r.Log)
	}
	return proto.Unmarshal(r.Value, resp)
}

func (c *Chain) queryPower(oper string) string {
	var r poa.QueryConsensusPowerResponse
	if err := c.query("/strangelove_ventures.poa.v1.Query/ConsensusPower", &poa.QueryConsensusPowerRequest{ValidatorAddress: oper}, &r); err != nil {
		return "error"
	}
	return fmt.Sprint(r.ConsensusPower)
}

// Lines renders the snapshot as the numeric rows the model prints too (Model/App.v project_state).
func (s *Snapshot) Lines() []string {
	var out []string
	b2 := func(b bool) int {
		if b {
			return 1
		}
		return 0
	}
	ids := make([]int, 0, len(s.Vals))
	for id := range s.Vals {
		ids = append(ids, id)
	}
	sort.Ints(ids)
	for _, id := range ids {
		v := s.Vals[id]
		out = append(out, fmt.Sprintf("VAL %d %d %d %d %s %s %d %d %s %s", v.ID, v.Cons, v.Status, b2(v.Jailed), v.Tokens, v.Shares, v.UBHeight, v.UBTime, v.MSD, v.Rate))
	}
	dids := make([]int, 0, len(s.Dels))
	for id := range s.Dels {
		dids = append(dids, id)
	}
	sort.Ints(dids)
	for _, id := range dids {
		out = append(out, fmt.Sprintf("DEL %d %s", id, s.Dels[id]))
	}
	out = append(out, s.Foreign...)
	idx := "IDX"
	for _, e := range s.Idx {
		idx += fmt.Sprintf(" %d %d", e[0], e[1])
	}
	out = append(out, idx)
	last := "LAST"
	lids := make([]int, 0, len(s.Last))
	for id := range s.Last {
		lids = append(lids, id)
	}
	sort.Ints(lids)
	for _, id := range lids {
		last += fmt.Sprintf(" %d %d", id, s.Last[id])
	}
	out = append(out, last)
	out = append(out, fmt.Sprintf("LTOT %d", s.LastTotal))
	out = append(out, s.UBQ...)
	out = append(out, "PARAMS "+s.Params)
	sids := make([]int, 0, len(s.Sign))
	for id := range s.Sign {
		sids = append(sids, id)
	}
	sort.Ints(sids)
	for _, id := range sids {
		g := s.Sign[id]
		out = append(out, fmt.Sprintf("SIGN %d %d %d %d %d %d %d", id, g.Start, g.Index, g.JailedUntil, b2(g.Tomb), g.Missed, g.BitMissed))
	}
	for _, p := range s.Pending {
		out = append(out, fmt.Sprintf("PEND %d %d %s %s %s %d", p.Oper, p.Cons, p.Rate, p.MaxRate, p.MaxChg, len(p.Moniker)))
	}
	out = append(out, fmt.Sprintf("POA %d %d", s.Cached, s.Abs))
	out = append(out, fmt.Sprintf("POOL %s %s", s.Bonded, s.NotBonded))
	out = append(out, "SUPPLY "+s.Supply)
	q := "QPOWER"
	for _, id := range []int{0, 1, 2, 3, 4, 5, 6, 7, unknownVal, -2} {
		a := s.QPower[id]
		if a == "error" {
			a = "-1"
		}
		q += fmt.Sprintf(" %d %s", id, a)
	}
	out = append(out, q)
	sq := "SEQ"
	for _, id := range []int{0, 1, 2, 3, 4, 5, 6, 7, adminID, user1ID} {
		sq += fmt.Sprintf(" %d %d", id, s.Seqs[id]-s.Seq0[id])
	}
	out = append(out, sq)
	return out
}

// BlockTrace is everything observed about one block.
type BlockTrace struct {
	Height  int64
	TxOut   []string
	ResDet  []string   // per executed tx: the fields CometBFT hashes into LastResultsHash (code, data, gas wanted, gas used)
	Updates [][2]int64 // (cons id, power), ordered as returned
	Halt    string
	Comet   string
	AppHash []byte
	After   *Snapshot
	Spec    BlockSpec
	Hashes  map[string]string // per-module committed store hashes
	AnteOK  []bool            // per tx: CheckTx accepted it (its signers' sequences are consumed)
	Probes  []string          // gated PoA messages executed directly (as x/gov would) from module accounts: "<msg>:<who>:<outcome>"
}

type Trace struct {
	Init   *Snapshot
	InitUp [][2]int64
	Blocks []*BlockTrace
}

func (c *Chain) updatesOf(ups []abci.ValidatorUpdate) [][2]int64 {
	var out [][2]int64
	for _, u := range ups {
		tm, err := cmttypes.PB2TM.ValidatorUpdates([]abci.ValidatorUpdate{u})
		id := -1
		if err == nil && len(tm) == 1 {
			if x, ok := c.Keys.ByCons[string(tm[0].Address)]; ok {
				id = x
			}
		}
		out = append(out, [2]int64{int64(id), u.Power})
	}
	return out
}

func txOutcome(r *abci.ExecTxResult) string {
	if r.Code == 0 {
		return "pass"
	}
	if r.Codespace == "undefined" && r.Code == 111222 {
		return "panic"
	}
	idx, ok := codespaceIdx[r.Codespace]
	if !ok {
		return fmt.Sprintf("err 9 %d #%s", r.Code, r.Codespace)
	}
	return fmt.Sprintf("err %d %d", idx, r.Code)
}

// RunHistory executes a history on a fresh chain. restartAt: heights after whose commit the app is
// torn down and re-created from its database.
var hashedStores = []string{"poa", "staking", "slashing", "bank", "mint", "distribution"}

// StoreHashes: committed per-module store hashes (what the app hash is built from).
func (c *Chain) StoreHashes() map[string]string {
	out := map[string]string{}
	for _, name := range hashedStores {
		key := c.App.GetKey(name)
		if key == nil {
			continue
		}
		out[name] = fmt.Sprintf("%X", c.App.CommitMultiStore().GetCommitKVStore(key).LastCommitID().Hash)
	}
	return out
}

// RunOpts: restartAt = heights after whose commit the app is re-created from its database;
// noSnap = do not read state or query (a node nobody looks at).
type RunOpts struct {
	RestartAt map[int64]bool
	NoSnap    bool
	AnteHints [][]bool // per block, per tx: reuse the reference run's CheckTx verdicts (a re-created app has no CheckTx state until its first commit)
}

func RunHistory(keys *Keys, h History, restartAt map[int64]bool) (*Trace, *Chain, error) {
	return RunHistoryOpts(keys, h, RunOpts{RestartAt: restartAt})
}

func RunHistoryOpts(keys *Keys, h History, o RunOpts) (*Trace, *Chain, error) {
	restartAt := o.RestartAt
	h.normalize()
	c, init, err := NewChain(keys, h.Genesis)
	if err != nil {
		return nil, nil, err
	}
	c.noSnap = o.NoSnap
	tr := &Trace{InitUp: c.updatesOf(init.Validators)}
	if !o.NoSnap {
		tr.Init = c.Snap()
	}
	for bi, b := range h.Blocks {
		c.anteHint = nil
		if bi < len(o.AnteHints) {
			c.anteHint = o.AnteHints[bi]
		}
		bt := c.ExecBlock(b)
		tr.Blocks = append(tr.Blocks, bt)
		if bt.Halt != "" || bt.Comet != "ok" {
			break
		}
		if restartAt[c.Height] {
			c.Restart()
		}
	}
	return tr, c, nil
}

func (c *Chain) ExecBlock(b BlockSpec) *BlockTrace {
	bt := &BlockTrace{Height: c.Height + 1, Spec: b, Comet: "ok"}
	// CometBFT only produces a block when more than 2/3 of the voting power of the previous block's set
	// signed it: absentees beyond that are dropped from the spec (the effective spec is what is reported).
	absent := map[string]bool{}
	var effAbsent []int
	if c.Prev != nil {
		total := c.Prev.TotalVotingPower()
		var gone int64
		for _, a := range b.Absent {
			if a < 0 || a >= poolSize || absent[string(c.Keys.Pool[a].Cons)] {
				continue
			}
			_, v := c.Prev.GetByAddress(c.Keys.Pool[a].Cons.Bytes())
			if v == nil {
				continue
			}
			// H-alive (DESIGN.md App. A): downtime never jails every validator of the upcoming set — with nobody left to
			// sign there is no chain; x/slashing alone could otherwise empty the set, which is not PoA's doing
			aliveAfter := int64(0)
			for _, nv := range c.Next.Validators {
				if !absent[string(nv.Address)] && string(nv.Address) != string(c.Keys.Pool[a].Cons) {
					aliveAfter += nv.VotingPower
				}
			}
			if 3*(gone+v.VotingPower) < total && aliveAfter > 0 {
				gone += v.VotingPower
				absent[string(c.Keys.Pool[a].Cons)] = true
				effAbsent = append(effAbsent, a)
			}
		}
	}
	b.Absent = effAbsent
	// H-evidence (DESIGN.md App. A): CometBFT forwards evidence about validators the chain still knows (its evidence window is
	// shorter than the unbonding period) and of heights that are not in the future; other entries are dropped from the spec.
	// H-alive as above: the punishment never takes the last validator of the upcoming set.
	var effEv []EvSpec
	if len(b.Evidence) > 0 {
		ctx := c.Ctx()
		punished := map[string]bool{}
		for _, e := range b.Evidence {
			if e.Cons < 0 || e.Cons >= poolSize || e.Height < 1 || e.Height > c.Height+1 || e.Power < 0 {
				continue
			}
			cons := c.Keys.Pool[e.Cons].Cons
			if _, err := c.App.StakingKeeper.GetValidatorByConsAddr(ctx, cons); err != nil {
				continue
			}
			aliveAfter := int64(0)
			for _, nv := range c.Next.Validators {
				k := string(nv.Address)
				if !absent[k] && !punished[k] && k != string(cons) {
					aliveAfter += nv.VotingPower
				}
			}
			if aliveAfter <= 0 {
				continue
			}
			punished[string(cons)] = true
			effEv = append(effEv, e)
		}
	}
	b.Evidence = effEv
	// Upper-case spellings of a validator address are explored only where the outcome does not depend on which spelling
	// the chain has stored (DESIGN.md §13): a re-application by an operator that is pending or has a validator record,
	// and SetPower / RemovePending aimed at a pending application; the operator must not be mentioned twice in the block.
	{
		mention := map[int]int{}
		anyUpper := false
		for _, t := range b.Txs {
			for _, m := range t.Msgs {
				switch m.Kind {
				case "create", "setpower", "remove", "removepending", "unjail":
					mention[m.Val]++
				}
				anyUpper = anyUpper || m.Upper
			}
		}
		if anyUpper {
			snap := c.Snap()
			pend := map[int]bool{}
			for _, p := range snap.Pending {
				pend[p.Oper] = true
			}
			txsCopy := make([]TxSpec, len(b.Txs))
			for i, t := range b.Txs {
				txsCopy[i] = TxSpec{Msgs: append([]MsgSpec(nil), t.Msgs...)}
				for j, m := range txsCopy[i].Msgs {
					if !m.Upper {
						continue
					}
					_, isVal := snap.Vals[m.Val]
					ok := mention[m.Val] == 1 && m.Val >= 0 && m.Val < poolSize &&
						((m.Kind == "create" && (pend[m.Val] || isVal)) || ((m.Kind == "setpower" || m.Kind == "removepending") && pend[m.Val]))
					if !ok {
						txsCopy[i].Msgs[j].Upper = false
					}
				}
			}
			b.Txs = txsCopy
		}
	}
	bt.Spec = b
	var txs [][]byte
	bump := map[int]uint64{}
	var skipped []int
	for i, t := range b.Txs {
		var msgs []sdk.Msg
		bad := false
		for _, m := range t.Msgs {
			msg, err := c.buildMsg(m)
			if err != nil {
				bad = true
				break
			}
			msgs = append(msgs, msg)
		}
		if bad || len(msgs) == 0 {
			skipped = append(skipped, i)
			continue
		}
		signers := t.signers()
		bz, err := c.SignTx(msgs, signers, bump)
		if err != nil {
			skipped = append(skipped, i)
			continue
		}
		// the sequence is consumed only if the ante chain accepts the transaction (as in a mempool)
		accepted := false
		if c.anteHint != nil && i < len(c.anteHint) {
			accepted = c.anteHint[i]
		} else {
			var chk *abci.ResponseCheckTx
			cerr := catch(func() error {
				var e error
				chk, e = c.App.CheckTx(&abci.RequestCheckTx{Tx: bz, Type: abci.CheckTxType_New})
				return e
			})
			accepted = cerr == nil && chk != nil && chk.Code == 0
		}
		for len(bt.AnteOK) < i {
			bt.AnteOK = append(bt.AnteOK, false)
		}
		bt.AnteOK = append(bt.AnteOK, accepted)
		if accepted {
			for _, s := range signers {
				bump[s]++
			}
		}
		txs = append(txs, bz)
	}
	res := c.RunBlock(b.Dt, absent, b.Evidence, txs)
	bt.Halt, bt.Comet, bt.AppHash = res.Halt, res.Comet, res.AppHash
	if res.Halt != "" {
		return bt
	}
	j := 0
	for i := range b.Txs {
		if len(skipped) > 0 && skipped[0] == i {
			skipped = skipped[1:]
			bt.TxOut = append(bt.TxOut, "unsignable")
			continue
		}
		bt.TxOut = append(bt.TxOut, txOutcome(res.TxResults[j]))
		bt.ResDet = append(bt.ResDet, fmt.Sprintf("%d/%x/%d/%d", res.TxResults[j].Code, res.TxResults[j].Data, res.TxResults[j].GasWanted, res.TxResults[j].GasUsed))
		j++
	}
	bt.Updates = c.updatesOf(res.Updates)
	bt.Hashes = c.StoreHashes()
	if !c.noSnap {
		bt.After = c.Snap()
		bt.Probes = c.authorityProbes()
	}
	return bt
}

// authorityProbes runs the four gated PoA messages straight through the message router (no transaction, no signature —
// the way x/gov executes a passed proposal), on a discarded branch of the committed state, with senders that cannot
// sign transactions: x/staking's authority and module accounts. None of them is the configured PoA admin.
func (c *Chain) authorityProbes() (out []string) {
	app := c.App
	base := app.NewUncachedContext(false, cmtproto.Header{Height: c.Height + 1, Time: c.Time.Add(time.Second), ChainID: chainID})
	p, err := app.StakingKeeper.GetParams(base)
	if err != nil {
		return nil
	}
	senders := map[string]string{
		"staking-authority": app.StakingKeeper.GetAuthority(),
		"gov-module":        authtypes.NewModuleAddress("gov").String(),
		"bonded-pool":       authtypes.NewModuleAddress(stakingtypes.BondedPoolName).String(),
	}
	names := []string{"bonded-pool", "gov-module", "staking-authority"}
	for _, who := range names {
		sender := senders[who]
		if sender == c.Keys.accAddr(adminID).String() {
			continue
		}
		msgs := map[string]sdk.Msg{
			"setpower":      &poa.MsgSetPower{Sender: sender, ValidatorAddress: c.Keys.valAddrStr(0), Power: 7_000_000, Unsafe: true},
			"remove":        &poa.MsgRemoveValidator{Sender: sender, ValidatorAddress: c.Keys.valAddrStr(0)},
			"removepending": &poa.MsgRemovePending{Sender: sender, ValidatorAddress: c.Keys.valAddrStr(3)},
			"params": &poa.MsgUpdateStakingParams{Sender: sender, Params: poa.StakingParams{UnbondingTime: p.UnbondingTime, MaxValidators: p.MaxValidators,
				MaxEntries: p.MaxEntries, HistoricalEntries: p.HistoricalEntries, BondDenom: p.BondDenom, MinCommissionRate: p.MinCommissionRate}},
		}
		for _, kind := range []string{"params", "remove", "removepending", "setpower"} {
			msg := msgs[kind]
			h := app.MsgServiceRouter().Handler(msg)
			if h == nil {
				continue
			}
			ctx, _ := base.CacheContext()
			outcome := "pass"
			if err := catch(func() error { _, e := h(ctx, msg); return e }); err != nil {
				outcome = outcomeOf(err)
			}
			out = append(out, kind+":"+who+":"+outcome)
		}
	}
	return out
}

// ProjectionLines: the rows both the harness and the model print for a block.
func (bt *BlockTrace) ProjectionLines() []string {
	out := []string{fmt.Sprintf("H %d", bt.Height)}
	if bt.Halt != "" {
		return append(out, "HALT")
	}
	hasTree := func(t TxSpec) bool {
		for _, m := range t.Msgs {
			if m.Kind == "tree" {
				return true
			}
		}
		return false
	}
	for i, o := range bt.TxOut {
		o = strings.Split(o, " #")[0]
		switch {
		case o == "unsignable":
			out = append(out, fmt.Sprintf("TX %d -3 0", i))
		case hasTree(bt.Spec.Txs[i]) && o != "err 0 1" && o != "err 0 5":
			out = append(out, fmt.Sprintf("TX %d -2 0", i)) // passed the PoA decorators; execution is not modelled
		case o == "pass":
			out = append(out, fmt.Sprintf("TX %d -1 0", i))
		case o == "panic":
			out = append(out, fmt.Sprintf("TX %d 4 111222", i))
		default:
			out = append(out, fmt.Sprintf("TX %d %s", i, strings.TrimPrefix(o, "err ")))
		}
	}
	ups := "UPD"
	for _, u := range bt.Updates {
		ups += fmt.Sprintf(" %d %d", u[0], u[1])
	}
	out = append(out, ups)
	cc := map[string]int{"ok": 0, "duplicate": 1, "negative": 2, "remove-nonmember": 3, "empty": 4, "power-too-large": 5}
	code, ok := cc[strings.Split(bt.Comet, ":")[0]]
	if !ok {
		code = 9
	}
	out = append(out, fmt.Sprintf("COMET %d", code))
	if bt.Comet != "ok" {
		return out
	}
	return append(out, bt.After.Lines()...)
}
