package main

import (
	"bytes"
	"encoding/json"
	"fmt"
	"math/rand"
	"os"
	"sort"
	"time"

	abci "github.com/cometbft/cometbft/abci/types"
	cmtproto "github.com/cometbft/cometbft/proto/tendermint/types"
	cmttypes "github.com/cometbft/cometbft/types"
	dbm "github.com/cosmos/cosmos-db"

	"cosmossdk.io/log"
	sdkmath "cosmossdk.io/math"

	"github.com/cosmos/cosmos-sdk/baseapp"
	"github.com/cosmos/cosmos-sdk/client/flags"
	codectypes "github.com/cosmos/cosmos-sdk/codec/types"
	"github.com/cosmos/cosmos-sdk/crypto/keys/ed25519"
	"github.com/cosmos/cosmos-sdk/crypto/keys/secp256k1"
	cryptotypes "github.com/cosmos/cosmos-sdk/crypto/types"
	simtestutil "github.com/cosmos/cosmos-sdk/testutil/sims"
	sdk "github.com/cosmos/cosmos-sdk/types"
	authtypes "github.com/cosmos/cosmos-sdk/x/auth/types"
	banktypes "github.com/cosmos/cosmos-sdk/x/bank/types"
	genutiltypes "github.com/cosmos/cosmos-sdk/x/genutil/types"
	govv1 "github.com/cosmos/cosmos-sdk/x/gov/types/v1"
	minttypes "github.com/cosmos/cosmos-sdk/x/mint/types"
	slashingtypes "github.com/cosmos/cosmos-sdk/x/slashing/types"
	stakingtypes "github.com/cosmos/cosmos-sdk/x/staking/types"

	"github.com/strangelove-ventures/poa/simapp"
)

const (
	chainID     = "verif-1"
	genesisUnix = 1_000_000
	poolSize    = 8   // validator identities 0..7 (sorted by operator address bytes)
	adminID     = 100 // plain accounts: admin, two users
	user1ID     = 101
	user2ID     = 102
	unknownVal  = 50 // a well-formed operator address that never exists
)

// Identity is one validator identity of the fixed pool: operator account key + consensus key.
type Identity struct {
	AccPriv  cryptotypes.PrivKey
	ConsPriv cryptotypes.PrivKey
	Acc      sdk.AccAddress
	Val      sdk.ValAddress
	Cons     sdk.ConsAddress
}

type Keys struct {
	Pool    []Identity // id order == operator address byte order
	Plain   map[int]cryptotypes.PrivKey
	ByAcc   map[string]int // account address -> id
	ByCons  map[string]int // cons address (hex) -> cons key id
	Unknown sdk.ValAddress
}

func newKeys() *Keys {
	k := &Keys{Plain: map[int]cryptotypes.PrivKey{}, ByAcc: map[string]int{}, ByCons: map[string]int{}}
	var ids []Identity
	for i := 0; i < poolSize; i++ {
		acc := secp256k1.GenPrivKeyFromSecret([]byte(fmt.Sprintf("verif-op-%d", i)))
		id := Identity{AccPriv: acc, Acc: sdk.AccAddress(acc.PubKey().Address())}
		id.Val = sdk.ValAddress(id.Acc)
		ids = append(ids, id)
	}
	sort.Slice(ids, func(a, b int) bool { return bytes.Compare(ids[a].Val, ids[b].Val) < 0 })
	// consensus keys sorted by cons address as well, so cons-key id order is byte order too
	var cons []cryptotypes.PrivKey
	for i := 0; i < poolSize; i++ {
		// two key types, as a chain whose consensus params allow both: a quarter of the pool is secp256k1
		if i%4 == 3 {
			cons = append(cons, secp256k1.GenPrivKeyFromSecret([]byte(fmt.Sprintf("verif-cons-%d", i))))
		} else {
			cons = append(cons, ed25519.GenPrivKeyFromSecret([]byte(fmt.Sprintf("verif-cons-%d", i))))
		}
	}
	sort.Slice(cons, func(a, b int) bool {
		return bytes.Compare(cons[a].PubKey().Address(), cons[b].PubKey().Address()) < 0
	})
	for i := range ids {
		ids[i].ConsPriv = cons[i]
		ids[i].Cons = sdk.ConsAddress(cons[i].PubKey().Address())
		k.ByAcc[ids[i].Acc.String()] = i
		k.ByCons[string(ids[i].Cons)] = i
	}
	k.Pool = ids
	for _, id := range []int{adminID, user1ID, user2ID} {
		p := secp256k1.GenPrivKeyFromSecret([]byte(fmt.Sprintf("verif-acct-%d", id)))
		k.Plain[id] = p
		k.ByAcc[sdk.AccAddress(p.PubKey().Address()).String()] = id
	}
	k.Unknown = sdk.ValAddress(bytes.Repeat([]byte{0x42}, 20))
	return k
}

func (k *Keys) priv(acct int) cryptotypes.PrivKey {
	if acct >= 0 && acct < poolSize {
		return k.Pool[acct].AccPriv
	}
	return k.Plain[acct]
}

func (k *Keys) accAddr(acct int) sdk.AccAddress {
	return sdk.AccAddress(k.priv(acct).PubKey().Address())
}

// valAddrStr: validator id -> operator bech32 (unknownVal: well-formed but absent; <0: malformed)
func (k *Keys) valAddrStr(id int) string {
	switch {
	case id >= 0 && id < poolSize:
		return k.Pool[id].Val.String()
	case id == unknownVal:
		return k.Unknown.String()
	default:
		return "cosmosvaloper1notanaddress"
	}
}

// valID maps an operator address to its id by the address bytes, whatever the spelling (bech32 may be all upper case)
func (k *Keys) valID(oper string) int {
	bz, err := sdk.ValAddressFromBech32(oper)
	if err != nil {
		return -1
	}
	for i, id := range k.Pool {
		if bytes.Equal(id.Val, bz) {
			return i
		}
	}
	if bytes.Equal(k.Unknown, bz) {
		return unknownVal
	}
	return -1
}

// Genesis describes the chain a history starts from.
type Genesis struct {
	Tokens      []int64 `json:"tokens"`       // self-delegation of genesis validators 0..n-1 (micro units)
	MaxVals     uint32  `json:"max_vals"`     // staking max_validators
	UnbondSecs  int64   `json:"unbond_secs"`  // staking unbonding_time
	Window      int64   `json:"window"`       // slashing signed_blocks_window
	MinSignedPc int64   `json:"min_signed"`   // percent
	JailSecs    int64   `json:"jail_secs"`    // downtime_jail_duration
	SlashDownBp int64   `json:"slash_down"`   // slash_fraction_downtime in 1/10000
	SlashDblBp  int64   `json:"slash_double"` // slash_fraction_double_sign in 1/10000
	Denom       string  `json:"denom,omitempty"` // bond denom of the chain ("" = "stake"); the model knows it as denom 0
}

func (g Genesis) denom() string {
	if g.Denom == "" {
		return "stake"
	}
	return g.Denom
}

func defaultGenesis() Genesis {
	return Genesis{Tokens: []int64{10_000_000, 10_000_000, 10_000_000}, MaxVals: 100, UnbondSecs: 30, Window: 4, MinSignedPc: 50,
		JailSecs: 5, SlashDownBp: 100, SlashDblBp: 500}
}

// Chain is a running SimApp together with the harness' CometBFT side.
type Chain struct {
	App    *simapp.SimApp
	DB     *dbm.MemDB
	Keys   *Keys
	G      Genesis
	Height int64 // last committed height
	Time   time.Time
	// CometBFT sets: Prev = V(H), Cur = V(H+1), Next = V(H+2) where H = last committed height
	Prev, Cur, Next *cmttypes.ValidatorSet
	Halted          string
	LastAppHash     []byte
	rnd             *rand.Rand
	seq0            map[int]uint64
	noSnap          bool
	anteHint        []bool
}

func bp(x int64) sdkmath.LegacyDec { return sdkmath.LegacyNewDecWithPrec(x, 4) }

func newApp(db dbm.DB) *simapp.SimApp {
	opts := make(simtestutil.AppOptionsMap, 0)
	opts[flags.FlagHome] = os.TempDir()
	return simapp.NewSimApp(log.NewNopLogger(), db, nil, true, opts, baseapp.SetChainID(chainID))
}

// NewChain builds the genesis (validators from signed gentxs), runs InitChain and returns the chain
// before block 1.
func NewChain(keys *Keys, g Genesis) (*Chain, *abci.ResponseInitChain, error) {
	os.Setenv("POA_ADMIN_ADDRESS", keys.accAddr(adminID).String())
	db := dbm.NewMemDB()
	app := newApp(db)
	cdc := app.AppCodec()
	gs := app.DefaultGenesis()

	// accounts and balances
	var accs []authtypes.GenesisAccount
	var bals []banktypes.Balance
	ids := []int{}
	for i := 0; i < poolSize; i++ {
		ids = append(ids, i)
	}
	ids = append(ids, adminID, user1ID, user2ID)
	for _, id := range ids {
		p := keys.priv(id)
		addr := sdk.AccAddress(p.PubKey().Address())
		accs = append(accs, authtypes.NewBaseAccount(addr, p.PubKey(), 0, 0))
		bals = append(bals, banktypes.Balance{Address: addr.String(), Coins: sdk.NewCoins(sdk.NewInt64Coin(g.denom(), 1_000_000_000_000))})
	}
	authGen := authtypes.NewGenesisState(authtypes.DefaultParams(), accs)
	gs[authtypes.ModuleName] = cdc.MustMarshalJSON(authGen)
	bankGen := banktypes.DefaultGenesisState()
	bankGen.Balances = bals
	gs[banktypes.ModuleName] = cdc.MustMarshalJSON(bankGen)

	// staking / slashing / mint / gov parameters
	var stk stakingtypes.GenesisState
	cdc.MustUnmarshalJSON(gs[stakingtypes.ModuleName], &stk)
	stk.Params.MaxValidators = g.MaxVals
	stk.Params.UnbondingTime = time.Duration(g.UnbondSecs) * time.Second
	stk.Params.BondDenom = g.denom()
	gs[stakingtypes.ModuleName] = cdc.MustMarshalJSON(&stk)

	var sl slashingtypes.GenesisState
	cdc.MustUnmarshalJSON(gs[slashingtypes.ModuleName], &sl)
	sl.Params.SignedBlocksWindow = g.Window
	sl.Params.MinSignedPerWindow = sdkmath.LegacyNewDecWithPrec(g.MinSignedPc, 2)
	sl.Params.DowntimeJailDuration = time.Duration(g.JailSecs) * time.Second
	sl.Params.SlashFractionDowntime = bp(g.SlashDownBp)
	sl.Params.SlashFractionDoubleSign = bp(g.SlashDblBp)
	gs[slashingtypes.ModuleName] = cdc.MustMarshalJSON(&sl)

	var mint minttypes.GenesisState
	cdc.MustUnmarshalJSON(gs[minttypes.ModuleName], &mint)
	mint.Minter.Inflation = sdkmath.LegacyZeroDec()
	mint.Params.InflationMax = sdkmath.LegacyZeroDec()
	mint.Params.InflationMin = sdkmath.LegacyZeroDec()
	mint.Params.InflationRateChange = sdkmath.LegacyZeroDec()
	mint.Params.MintDenom = g.denom()
	gs[minttypes.ModuleName] = cdc.MustMarshalJSON(&mint)

	var gov govv1.GenesisState
	cdc.MustUnmarshalJSON(gs["gov"], &gov)
	vp := 10 * time.Second
	gov.Params.VotingPeriod = &vp
	gov.Params.MaxDepositPeriod = &vp
	evp := 5 * time.Second
	gov.Params.ExpeditedVotingPeriod = &evp
	gs["gov"] = cdc.MustMarshalJSON(&gov)

	// gentxs
	txCfg := app.TxConfig()
	var gentxs []json.RawMessage
	for i, tok := range g.Tokens {
		id := keys.Pool[i]
		msg, err := stakingtypes.NewMsgCreateValidator(id.Val.String(), id.ConsPriv.PubKey(), sdk.NewInt64Coin(g.denom(), tok),
			stakingtypes.NewDescription(fmt.Sprintf("val%d", i), "", "", "", ""),
			stakingtypes.NewCommissionRates(sdkmath.LegacyNewDecWithPrec(1, 1), sdkmath.LegacyNewDecWithPrec(5, 1), sdkmath.LegacyNewDecWithPrec(1, 1)),
			sdkmath.OneInt())
		if err != nil {
			return nil, nil, err
		}
		tx, err := simtestutil.GenSignedMockTx(rand.New(rand.NewSource(int64(i))), txCfg, []sdk.Msg{msg}, sdk.NewCoins(), 1_000_000, chainID,
			[]uint64{0}, []uint64{0}, id.AccPriv)
		if err != nil {
			return nil, nil, err
		}
		bz, err := txCfg.TxJSONEncoder()(tx)
		if err != nil {
			return nil, nil, err
		}
		gentxs = append(gentxs, bz)
	}
	gs[genutiltypes.ModuleName] = cdc.MustMarshalJSON(&genutiltypes.GenesisState{GenTxs: gentxs})

	stateBytes, err := json.Marshal(gs)
	if err != nil {
		return nil, nil, err
	}
	t0 := time.Unix(genesisUnix, 0).UTC()
	consParams := *simtestutil.DefaultConsensusParams
	valParams := *consParams.Validator
	valParams.PubKeyTypes = []string{"ed25519", "secp256k1"}
	consParams.Validator = &valParams
	// a short evidence window, so that histories reach x/evidence's staleness rule (Model/Slashing.v: ev_max_age_*)
	evParams := *consParams.Evidence
	evParams.MaxAgeNumBlocks, evParams.MaxAgeDuration = evMaxAgeBlocks, evMaxAgeSecs*time.Second
	consParams.Evidence = &evParams
	resp, err := app.InitChain(&abci.RequestInitChain{
		ChainId: chainID, Time: t0, InitialHeight: 1, ConsensusParams: &consParams, AppStateBytes: stateBytes,
	})
	if err != nil {
		return nil, nil, fmt.Errorf("InitChain: %w", err)
	}
	c := &Chain{App: app, DB: db, Keys: keys, G: g, Height: 0, Time: t0, rnd: rand.New(rand.NewSource(7))}
	vals, err := cmttypes.PB2TM.ValidatorUpdates(resp.Validators)
	if err != nil {
		return nil, nil, err
	}
	if len(vals) == 0 {
		return nil, nil, fmt.Errorf("InitChain returned no validators")
	}
	c.Cur = cmttypes.NewValidatorSet(vals)
	c.Next = c.Cur.Copy()
	c.LastAppHash = resp.AppHash
	c.seq0 = map[int]uint64{}
	for _, id := range []int{0, 1, 2, 3, 4, 5, 6, 7, adminID, user1ID} {
		_, c.seq0[id] = c.accountNumSeq(id)
	}
	return c, resp, nil
}

// Restart tears the application down and re-creates it from its database (C12).
func (c *Chain) Restart() {
	c.App = newApp(c.DB)
}

// Ctx returns a context over the committed state.
func (c *Chain) Ctx() sdk.Context {
	if c.Height == 0 {
		// nothing is committed before the first block: read InitChain's state
		return c.App.NewContext(false)
	}
	return c.App.NewUncachedContext(false, cmtproto.Header{ChainID: chainID, Height: c.Height, Time: c.Time})
}

func (c *Chain) accountNumSeq(acct int) (uint64, uint64) {
	a := c.App.AccountKeeper.GetAccount(c.Ctx(), c.Keys.accAddr(acct))
	if a == nil {
		return 0, 0
	}
	return a.GetAccountNumber(), a.GetSequence()
}

// SignTx signs msgs with the given accounts' keys (sequence numbers read from committed state plus
// seqBump[acct] for earlier transactions of the same block).
func (c *Chain) SignTx(msgs []sdk.Msg, signers []int, seqBump map[int]uint64) ([]byte, error) {
	var nums, seqs []uint64
	var privs []cryptotypes.PrivKey
	for _, s := range signers {
		n, q := c.accountNumSeq(s)
		nums = append(nums, n)
		seqs = append(seqs, q+seqBump[s])
		privs = append(privs, c.Keys.priv(s))
	}
	tx, err := simtestutil.GenSignedMockTx(c.rnd, c.App.TxConfig(), msgs, sdk.NewCoins(), 50_000_000, chainID, nums, seqs, privs...)
	if err != nil {
		return nil, err
	}
	return c.App.TxConfig().TxEncoder()(tx)
}

// BlockResult is what one FinalizeBlock+Commit produced.
type BlockResult struct {
	TxResults []*abci.ExecTxResult
	Updates   []abci.ValidatorUpdate
	AppHash   []byte
	Halt      string // "" or class of the block-level failure
	Comet     string // "ok" or class of the CometBFT refusal
	Raw       *abci.ResponseFinalizeBlock
}

func cometErrClass(err error) string {
	s := err.Error()
	switch {
	case bytes.Contains([]byte(s), []byte("duplicate entry")):
		return "duplicate"
	case bytes.Contains([]byte(s), []byte("failed to find validator")):
		return "remove-nonmember"
	case bytes.Contains([]byte(s), []byte("negative")):
		return "negative"
	case bytes.Contains([]byte(s), []byte("empty set")), bytes.Contains([]byte(s), []byte("applying the validator changes would result in empty set")):
		return "empty"
	case bytes.Contains([]byte(s), []byte("exceeds max")), bytes.Contains([]byte(s), []byte("overflow")), bytes.Contains([]byte(s), []byte("total voting power")):
		return "power-too-large"
	}
	return "other:" + s
}

const (
	evMaxAgeBlocks = 6
	evMaxAgeSecs   = 30
)

// RunBlock executes one block: dt seconds later, votes from V(H-1) with the given absentees.
func (c *Chain) RunBlock(dt int64, absentCons map[string]bool, evs []EvSpec, txs [][]byte) (res *BlockResult) {
	res = &BlockResult{Comet: "ok"}
	if c.Halted != "" {
		res.Halt = c.Halted
		return res
	}
	h := c.Height + 1
	t := c.Time.Add(time.Duration(dt) * time.Second)
	var votes []abci.VoteInfo
	if c.Prev != nil {
		for _, v := range c.Prev.Validators {
			flag := cmtproto.BlockIDFlagCommit
			if absentCons[string(v.Address)] {
				flag = cmtproto.BlockIDFlagAbsent
			}
			votes = append(votes, abci.VoteInfo{Validator: abci.Validator{Address: v.Address, Power: v.VotingPower}, BlockIdFlag: flag})
		}
	}
	var proposer []byte
	if c.Cur != nil && len(c.Cur.Validators) > 0 {
		proposer = c.Cur.Validators[0].Address
	}
	var misb []abci.Misbehavior
	for _, e := range evs {
		var total int64
		if c.Cur != nil {
			total = c.Cur.TotalVotingPower()
		}
		// x/evidence handles both kinds of misbehaviour CometBFT reports the same way; alternate between them
		kind := abci.MisbehaviorType_DUPLICATE_VOTE
		if (e.Height+int64(e.Cons))%2 == 1 {
			kind = abci.MisbehaviorType_LIGHT_CLIENT_ATTACK
		}
		misb = append(misb, abci.Misbehavior{Type: kind,
			Validator: abci.Validator{Address: c.Keys.Pool[e.Cons].Cons.Bytes(), Power: e.Power},
			Height:    e.Height, Time: time.Unix(genesisUnix+e.Time, 0).UTC(), TotalVotingPower: total})
	}
	req := &abci.RequestFinalizeBlock{Height: h, Time: t, Txs: txs, DecidedLastCommit: abci.CommitInfo{Votes: votes}, Misbehavior: misb,
		Hash: []byte(fmt.Sprintf("blk-%d", h)), ProposerAddress: proposer, NextValidatorsHash: c.Next.Hash()}
	var resp *abci.ResponseFinalizeBlock
	err := catch(func() error {
		var e error
		resp, e = c.App.FinalizeBlock(req)
		return e
	})
	if err != nil {
		res.Halt = haltClass(err)
		c.Halted = res.Halt
		return res
	}
	err = catch(func() error { _, e := c.App.Commit(); return e })
	if err != nil {
		res.Halt = "commit:" + haltClass(err)
		c.Halted = res.Halt
		return res
	}
	c.Height, c.Time = h, t
	res.Raw, res.TxResults, res.Updates, res.AppHash = resp, resp.TxResults, resp.ValidatorUpdates, resp.AppHash
	c.LastAppHash = resp.AppHash
	// CometBFT side: V(H+2) = V(H+1) + updates
	nn := c.Next.Copy()
	ups, err := cmttypes.PB2TM.ValidatorUpdates(resp.ValidatorUpdates)
	if err == nil {
		err = nn.UpdateWithChangeSet(ups)
	}
	if err != nil {
		res.Comet = cometErrClass(err)
		c.Halted = "comet:" + res.Comet
		return res
	}
	c.Prev, c.Cur, c.Next = c.Cur, c.Next, nn
	return res
}

func haltClass(err error) string {
	s := err.Error()
	for _, k := range []string{"validator record not found", "unexpected validator in unbonding queue", "bad state transition",
		"no validator signing info found", "insufficient funds", "does not exist", "validator does not exist", "not found"} {
		if bytes.Contains([]byte(s), []byte(k)) {
			return "block-error:" + k
		}
	}
	if len(s) > 160 {
		s = s[:160]
	}
	return "block-error:" + s
}

func mustAny(pk cryptotypes.PubKey) *codectypes.Any {
	a, err := codectypes.NewAnyWithValue(pk)
	if err != nil {
		panic(err)
	}
	return a
}
