package main

// Guard translator: /repo/validation.go's four validation methods are sequences of guarded returns ("if C { return E }",
// "switch { case C: return E }", "if err := CALL; err != nil { return err }"). This file translates each method's body,
// statement by statement, into a Gallina term (list of guards over an expression syntax, Tie/GuardLang.v); Tie/Guards.v
// gives that syntax its meaning and proves that the interpreted guards ARE the model's validation functions, for every input.
// A changed comparison, constant, order of checks, or error value changes the generated term and breaks that theorem.
// Anything outside the recognised statement forms is emitted as GUnknown, which the interpreter maps to a result no model
// function returns.

import (
	"fmt"
	"go/ast"
	"go/parser"
	"go/token"
	"path/filepath"
	"strconv"
	"strings"
)

func init() { factGenerators["ExtractedGuards.v"] = genGuards }

var guardMethods = [][2]string{{"MsgSetPower", "Validate"}, {"CommissionRates", "Validate"}, {"Description", "EnsureLength"}, {"MsgCreateValidator", "Validate"}}



// gx: expression syntax
func gxOf(e ast.Expr) string {
	switch x := e.(type) {
	case *ast.ParenExpr:
		return gxOf(x.X)
	case *ast.Ident:
		if x.Name == "nil" {
			return "GNil"
		}
		return "(GSel [" + coqStr(x.Name) + "])"
	case *ast.SelectorExpr:
		if p, ok := selPath(x); ok {
			ps := make([]string, len(p))
			for i, s := range p {
				ps[i] = coqStr(s)
			}
			return "(GSel [" + strings.Join(ps, "; ") + "])"
		}
		return "(GUnknown " + coqStr(exprString(e)) + ")"
	case *ast.BasicLit:
		if x.Kind == token.INT {
			if z, err := strconv.ParseInt(strings.ReplaceAll(x.Value, "_", ""), 0, 64); err == nil {
				return fmt.Sprintf("(GLit %d)", z)
			}
		}
		return "(GUnknown " + coqStr(x.Value) + ")"
	case *ast.BinaryExpr:
		return "(GBin " + coqStr(x.Op.String()) + " " + gxOf(x.X) + " " + gxOf(x.Y) + ")"
	case *ast.UnaryExpr:
		if x.Op == token.NOT {
			return "(GNot " + gxOf(x.X) + ")"
		}
		return "(GUnknown " + coqStr("unary "+x.Op.String()) + ")"
	case *ast.CompositeLit:
		if len(x.Elts) == 0 {
			return "(GEmptyStruct " + coqStr(exprString(x.Type)) + ")"
		}
		return "(GUnknown " + coqStr("composite literal with fields") + ")"
	case *ast.CallExpr:
		arg := "None"
		if len(x.Args) == 1 {
			arg = "(Some " + gxOf(x.Args[0]) + ")"
		} else if len(x.Args) > 1 {
			return "(GUnknown " + coqStr("call with several arguments: "+exprString(x.Fun)) + ")"
		}
		if sel, ok := x.Fun.(*ast.SelectorExpr); ok {
			// a method call on a value (receiver is a selector path or another call), or a package function
			if id, ok := sel.X.(*ast.Ident); ok && id.Obj == nil && isPackageName(id.Name) {
				return "(GFun " + coqStr(id.Name+"."+sel.Sel.Name) + " " + arg + ")"
			}
			return "(GMeth " + gxOf(sel.X) + " " + coqStr(sel.Sel.Name) + " " + arg + ")"
		}
		if id, ok := x.Fun.(*ast.Ident); ok {
			return "(GFun " + coqStr(id.Name) + " " + arg + ")"
		}
	}
	return "(GUnknown " + coqStr(fmt.Sprintf("%T", e)) + ")"
}

var guardPackages = map[string]bool{}

func isPackageName(n string) bool { return guardPackages[n] }

func selPath(e ast.Expr) ([]string, bool) {
	switch x := e.(type) {
	case *ast.Ident:
		return []string{x.Name}, true
	case *ast.SelectorExpr:
		p, ok := selPath(x.X)
		if !ok {
			return nil, false
		}
		return append(p, x.Sel.Name), true
	}
	return nil, false
}

// the error a return statement carries (its last result), with Wrap/Wrapf stripped
func errOf(e ast.Expr) string {
	switch x := e.(type) {
	case *ast.Ident:
		return x.Name
	case *ast.SelectorExpr:
		return exprString(x)
	case *ast.CallExpr:
		if sel, ok := x.Fun.(*ast.SelectorExpr); ok {
			switch sel.Sel.Name {
			case "Errorf":
				if id, ok := sel.X.(*ast.Ident); ok && id.Name == "fmt" {
					return "fmt.Errorf"
				}
			case "Wrap", "Wrapf":
				if id, ok := sel.X.(*ast.Ident); ok && id.Name == "errorsmod" && len(x.Args) > 0 {
					return errOf(x.Args[0]) // errorsmod.Wrap(ErrX, "...")
				}
				return errOf(sel.X) // ErrX.Wrapf("...")
			}
		}
	}
	return "?" + exprString(e)
}

func retOf(s ast.Stmt) string {
	r, ok := s.(*ast.ReturnStmt)
	if !ok || len(r.Results) == 0 {
		return "(RUnknown " + coqStr("not a return") + ")"
	}
	last := r.Results[len(r.Results)-1]
	if id, ok := last.(*ast.Ident); ok && id.Name == "err" {
		return "RSameErr"
	}
	if id, ok := last.(*ast.Ident); ok && id.Name == "nil" {
		return "ROk"
	}
	return "(RErr " + coqStr(errOf(last)) + ")"
}

func singleReturn(b *ast.BlockStmt) (ast.Stmt, bool) {
	if b != nil && len(b.List) == 1 {
		if _, ok := b.List[0].(*ast.ReturnStmt); ok {
			return b.List[0], true
		}
	}
	return nil, false
}

// "err != nil"
func isErrNotNil(e ast.Expr) bool {
	b, ok := e.(*ast.BinaryExpr)
	if !ok || b.Op != token.NEQ {
		return false
	}
	l, ok1 := b.X.(*ast.Ident)
	r, ok2 := b.Y.(*ast.Ident)
	return ok1 && ok2 && l.Name == "err" && r.Name == "nil"
}

// "..., err := CALL"
func errAssign(s ast.Stmt) (ast.Expr, bool) {
	a, ok := s.(*ast.AssignStmt)
	if !ok || a.Tok != token.DEFINE || len(a.Rhs) != 1 || len(a.Lhs) == 0 {
		return nil, false
	}
	if id, ok := a.Lhs[len(a.Lhs)-1].(*ast.Ident); !ok || id.Name != "err" {
		return nil, false
	}
	if _, ok := a.Rhs[0].(*ast.CallExpr); !ok {
		return nil, false
	}
	return a.Rhs[0], true
}

func guardsOf(body *ast.BlockStmt) []string {
	var out []string
	guard := func(c, r string) { out = append(out, "{| g_cond := "+c+"; g_ret := "+r+" |}") }
	var pendingCall ast.Expr // "_, err := CALL" waiting for its "if err != nil"
	for i, st := range body.List {
		switch s := st.(type) {
		case *ast.AssignStmt:
			if call, ok := errAssign(s); ok && pendingCall == nil {
				pendingCall = call
				continue
			}
			guard("(GUnknown "+coqStr("assignment")+")", "(RUnknown \"\")")
		case *ast.IfStmt:
			ret, ok := singleReturn(s.Body)
			if !ok || s.Else != nil {
				guard("(GUnknown "+coqStr("if with a body that is not a single return")+")", "(RUnknown \"\")")
				continue
			}
			switch {
			case s.Init != nil:
				if call, ok := errAssign(s.Init); ok && isErrNotNil(s.Cond) {
					guard("(GFails "+gxOf(call)+")", retOf(ret))
				} else {
					guard("(GUnknown "+coqStr("if with init")+")", "(RUnknown \"\")")
				}
			case isErrNotNil(s.Cond):
				if pendingCall != nil {
					guard("(GFails "+gxOf(pendingCall)+")", retOf(ret))
					pendingCall = nil
				} else {
					guard("(GUnknown "+coqStr("err != nil without a call")+")", "(RUnknown \"\")")
				}
			default:
				guard(gxOf(s.Cond), retOf(ret))
			}
		case *ast.SwitchStmt:
			if s.Init != nil || s.Tag != nil {
				guard("(GUnknown "+coqStr("switch with tag")+")", "(RUnknown \"\")")
				continue
			}
			for _, cc := range s.Body.List {
				c := cc.(*ast.CaseClause)
				if len(c.List) != 1 || len(c.Body) != 1 {
					guard("(GUnknown "+coqStr("case shape")+")", "(RUnknown \"\")")
					continue
				}
				guard(gxOf(c.List[0]), retOf(c.Body[0]))
			}
		case *ast.ReturnStmt:
			if i == len(body.List)-1 {
				guard("GTrue", retOf(s))
			} else {
				guard("(GUnknown "+coqStr("early return")+")", "(RUnknown \"\")")
			}
		default:
			guard("(GUnknown "+coqStr(fmt.Sprintf("%T", st))+")", "(RUnknown \"\")")
		}
	}
	if pendingCall != nil {
		guard("(GUnknown "+coqStr("call result never tested")+")", "(RUnknown \"\")")
	}
	return out
}

func genGuards() (string, error) {
	fset := token.NewFileSet()
	f, err := parser.ParseFile(fset, filepath.Join(repoRoot, "validation.go"), nil, 0)
	if err != nil {
		return "", err
	}
	guardPackages = map[string]bool{}
	for _, im := range f.Imports {
		p, _ := strconv.Unquote(im.Path.Value)
		name := filepath.Base(p)
		if im.Name != nil {
			name = im.Name.Name
		}
		guardPackages[name] = true
	}
	var b strings.Builder
	b.WriteString("(* GENERATED by `harness factgen` from /repo/validation.go — do not edit. *)\nFrom Coq Require Import ZArith List String.\nRequire Import Tie.GuardLang.\nImport ListNotations.\nOpen Scope string_scope.\nOpen Scope Z_scope.\n\n")
	found := map[string]bool{}
	for _, d := range f.Decls {
		fd, ok := d.(*ast.FuncDecl)
		if !ok || fd.Recv == nil || len(fd.Recv.List) != 1 || fd.Body == nil {
			continue
		}
		recv := exprString(fd.Recv.List[0].Type)
		for _, m := range guardMethods {
			if recv == m[0] && fd.Name.Name == m[1] {
				name := "x_guards_" + m[0] + "_" + m[1]
				found[name] = true
				b.WriteString("Definition " + name + " : list guard := [\n  " + strings.Join(guardsOf(fd.Body), ";\n  ") + "\n].\n\n")
			}
		}
	}
	// plain functions of other files
	for _, pf := range [][2]string{{"ante/commission_limit.go", "rateCheck"}} {
		name := "x_guards_" + pf[1]
		ff, err := parser.ParseFile(token.NewFileSet(), filepath.Join(repoRoot, pf[0]), nil, 0)
		if err != nil {
			return "", err
		}
		for _, im := range ff.Imports {
			p, _ := strconv.Unquote(im.Path.Value)
			n := filepath.Base(p)
			if im.Name != nil {
				n = im.Name.Name
			}
			guardPackages[n] = true
		}
		done := false
		for _, d := range ff.Decls {
			if fd, ok := d.(*ast.FuncDecl); ok && fd.Recv == nil && fd.Name.Name == pf[1] && fd.Body != nil {
				b.WriteString("Definition " + name + " : list guard := [\n  " + strings.Join(guardsOf(fd.Body), ";\n  ") + "\n].\n\n")
				done = true
			}
		}
		if !done {
			b.WriteString("Definition " + name + " : list guard := [{| g_cond := GUnknown \"function not found\"; g_ret := RUnknown \"\" |}].\n\n")
		}
	}
	for _, m := range guardMethods {
		name := "x_guards_" + m[0] + "_" + m[1]
		if !found[name] {
			b.WriteString("Definition " + name + " : list guard := [{| g_cond := GUnknown \"method not found\"; g_ret := RUnknown \"\" |}].\n\n")
		}
	}
	return b.String(), nil
}

// ---- conversions.go: the two record converters as field maps -------------------------------------------------------------
// Each converter is one composite literal; it is flattened into (destination field path, source expression) pairs, nested
// literals contributing dotted paths and calls kept as text. Tie/Guards.v compares the pairs with the model's table.

func srcString(e ast.Expr) string {
	switch x := e.(type) {
	case *ast.CallExpr:
		var as []string
		for _, a := range x.Args {
			as = append(as, srcString(a))
		}
		return srcString(x.Fun) + "(" + strings.Join(as, ",") + ")"
	case *ast.ParenExpr:
		return srcString(x.X)
	case *ast.UnaryExpr:
		return x.Op.String() + srcString(x.X)
	case *ast.BasicLit:
		return x.Value
	}
	return exprString(e)
}

func flattenLit(prefix string, lit *ast.CompositeLit, out *[][2]string) {
	for _, el := range lit.Elts {
		kv, ok := el.(*ast.KeyValueExpr)
		if !ok {
			*out = append(*out, [2]string{prefix + "?", "positional element"})
			continue
		}
		key := prefix + exprString(kv.Key)
		if inner, ok := kv.Value.(*ast.CompositeLit); ok {
			flattenLit(key+".", inner, out)
			continue
		}
		*out = append(*out, [2]string{key, srcString(kv.Value)})
	}
}

func init() { factGenerators["ExtractedConversions.v"] = genConversions }

func genConversions() (string, error) {
	fset := token.NewFileSet()
	f, err := parser.ParseFile(fset, filepath.Join(repoRoot, "conversions.go"), nil, 0)
	if err != nil {
		return "", err
	}
	var b strings.Builder
	b.WriteString("(* GENERATED by `harness factgen` from /repo/conversions.go — do not edit. *)\nFrom Coq Require Import List String.\nImport ListNotations.\nOpen Scope string_scope.\n\n")
	for _, name := range []string{"ConvertPOAToStaking", "ConvertStakingToPOA"} {
		var pairs [][2]string
		shape := "single return of a composite literal"
		for _, d := range f.Decls {
			fd, ok := d.(*ast.FuncDecl)
			if !ok || fd.Recv != nil || fd.Name.Name != name || fd.Body == nil {
				continue
			}
			if len(fd.Body.List) != 1 {
				shape = fmt.Sprintf("%d statements", len(fd.Body.List))
				break
			}
			r, ok := fd.Body.List[0].(*ast.ReturnStmt)
			if !ok || len(r.Results) != 1 {
				shape = "not a single return"
				break
			}
			lit, ok := r.Results[0].(*ast.CompositeLit)
			if !ok {
				shape = "returns " + srcString(r.Results[0])
				break
			}
			flattenLit("", lit, &pairs)
		}
		var ps []string
		for _, p := range pairs {
			ps = append(ps, "("+coqStr(p[0])+", "+coqStr(p[1])+")")
		}
		b.WriteString("Definition x_conv_" + name + "_shape : string := " + coqStr(shape) + ".\n")
		b.WriteString("Definition x_conv_" + name + " : list (string * string) := [\n  " + strings.Join(ps, ";\n  ") + "\n].\n\n")
	}
	return b.String(), nil
}
