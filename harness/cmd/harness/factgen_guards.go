package main

// Guard translator: /repo/validation.go's four validation methods are sequences of guarded returns ("if C { return E }",
// "switch { case C: return E }", "if err := CALL; err != nil { return err }"). This file translates each method's body,
// statement by statement, into a Gallina term (list of guards over an expression syntax, Tie/GuardLang.v); Tie/Guards.v
// gives that syntax its meaning and proves that the interpreted guards ARE the model's validation functions, for every input.
// A changed comparison, constant, order of checks, or error value changes the generated term and breaks that theorem.
// Anything outside the recognised statement forms is emitted as GUnknown, which the interpreter maps to a result no model
// function returns.

import (
	"fmt"
	"go/ast"
	"go/parser"
	"go/printer"
	"go/token"
	"path/filepath"
	"strconv"
	"strings"
)

func init() { factGenerators["ExtractedGuards.v"] = genGuards }

var guardMethods = [][2]string{{"MsgSetPower", "Validate"}, {"CommissionRates", "Validate"}, {"Description", "EnsureLength"}, {"MsgCreateValidator", "Validate"}}



// gx: expression syntax
func gxOf(e ast.Expr) string {
	switch x := e.(type) {
	case *ast.ParenExpr:
		return gxOf(x.X)
	case *ast.Ident:
		if x.Name == "nil" {
			return "GNil"
		}
		if v, ok := bindings[x.Name]; ok {
			return v // a local the block has just defined: its defining expression
		}
		return "(GSel [" + coqStr(x.Name) + "])"
	case *ast.SelectorExpr:
		if p, ok := selPath(x); ok {
			ps := make([]string, len(p))
			for i, s := range p {
				ps[i] = coqStr(s)
			}
			return "(GSel [" + strings.Join(ps, "; ") + "])"
		}
		return "(GUnknown " + coqStr(exprString(e)) + ")"
	case *ast.BasicLit:
		if x.Kind == token.INT {
			if z, err := strconv.ParseInt(strings.ReplaceAll(x.Value, "_", ""), 0, 64); err == nil {
				return fmt.Sprintf("(GLit %d)", z)
			}
		}
		if x.Kind == token.STRING {
			if v, err := strconv.Unquote(x.Value); err == nil {
				return "(GStr " + coqStr(v) + ")"
			}
		}
		return "(GUnknown " + coqStr(x.Value) + ")"
	case *ast.BinaryExpr:
		return "(GBin " + coqStr(x.Op.String()) + " " + gxOf(x.X) + " " + gxOf(x.Y) + ")"
	case *ast.UnaryExpr:
		if x.Op == token.NOT {
			return "(GNot " + gxOf(x.X) + ")"
		}
		return "(GUnknown " + coqStr("unary "+x.Op.String()) + ")"
	case *ast.CompositeLit:
		if len(x.Elts) == 0 {
			return "(GEmptyStruct " + coqStr(exprString(x.Type)) + ")"
		}
		return "(GUnknown " + coqStr("composite literal with fields") + ")"
	case *ast.CallExpr:
		args := x.Args
		if len(args) >= 1 {
			if id, ok := args[0].(*ast.Ident); ok && (id.Name == "ctx" || id.Name == "sdkCtx") {
				args = args[1:] // the context parameter carries no data of the message
			}
		}
		x = &ast.CallExpr{Fun: x.Fun, Args: args}
		arg := "None"
		if len(x.Args) == 1 {
			arg = "(Some " + gxOf(x.Args[0]) + ")"
		} else if len(x.Args) > 1 {
			if !pairArguments {
				return "(GUnknown " + coqStr("call with several arguments: "+exprString(x.Fun)) + ")"
			}
			a := gxOf(x.Args[0]) // several arguments: a right-nested "," pair (authority extraction only)
			for _, more := range x.Args[1:] {
				a = "(GBin \",\" " + a + " " + gxOf(more) + ")"
			}
			arg = "(Some " + a + ")"
		}
		if sel, ok := x.Fun.(*ast.SelectorExpr); ok {
			// a method call on a value (receiver is a selector path or another call), or a package function
			if id, ok := sel.X.(*ast.Ident); ok && id.Obj == nil && isPackageName(id.Name) {
				return "(GFun " + coqStr(id.Name+"."+sel.Sel.Name) + " " + arg + ")"
			}
			return "(GMeth " + gxOf(sel.X) + " " + coqStr(sel.Sel.Name) + " " + arg + ")"
		}
		if id, ok := x.Fun.(*ast.Ident); ok {
			return "(GFun " + coqStr(id.Name) + " " + arg + ")"
		}
	}
	return "(GUnknown " + coqStr(fmt.Sprintf("%T", e)) + ")"
}

var guardPackages = map[string]bool{}

// pairArguments: calls with several arguments become one "," pair instead of GUnknown (set by genAuthority only, so that the guard
// lists of validation.go keep their shape)
var pairArguments bool

// valueResult: the function under translation returns one value that is not an error (IsAdmin, GetAdmin)
var valueResult bool

// bindings: locals defined by "name := expr" or "name, err := CALL" inside the block under translation (authority / limit extraction
// only; nil otherwise)
var bindings map[string]string

// nestedGuards: an if whose body is itself a list of guards is flattened (authority extraction only)
var nestedGuards bool

func isPackageName(n string) bool { return guardPackages[n] }

func selPath(e ast.Expr) ([]string, bool) {
	switch x := e.(type) {
	case *ast.Ident:
		return []string{x.Name}, true
	case *ast.SelectorExpr:
		p, ok := selPath(x.X)
		if !ok {
			return nil, false
		}
		return append(p, x.Sel.Name), true
	}
	return nil, false
}

// the error a return statement carries (its last result), with Wrap/Wrapf stripped
func errOf(e ast.Expr) string {
	switch x := e.(type) {
	case *ast.Ident:
		return x.Name
	case *ast.SelectorExpr:
		return exprString(x)
	case *ast.CallExpr:
		if sel, ok := x.Fun.(*ast.SelectorExpr); ok {
			switch sel.Sel.Name {
			case "Errorf":
				if id, ok := sel.X.(*ast.Ident); ok && id.Name == "fmt" {
					return "fmt.Errorf"
				}
			case "Wrap", "Wrapf":
				if id, ok := sel.X.(*ast.Ident); ok && id.Name == "errorsmod" && len(x.Args) > 0 {
					return errOf(x.Args[0]) // errorsmod.Wrap(ErrX, "...")
				}
				return errOf(sel.X) // ErrX.Wrapf("...")
			}
		}
	}
	return "?" + exprString(e)
}

func retOf(s ast.Stmt) string {
	r, ok := s.(*ast.ReturnStmt)
	if !ok || len(r.Results) == 0 {
		return "(RUnknown " + coqStr("not a return") + ")"
	}
	last := r.Results[len(r.Results)-1]
	if id, ok := last.(*ast.Ident); ok && id.Name == "err" {
		return "RSameErr"
	}
	if id, ok := last.(*ast.Ident); ok && id.Name == "nil" {
		if nestedGuards && len(r.Results) == 2 {
			if id0, ok := r.Results[0].(*ast.Ident); !ok || id0.Name != "nil" {
				return "(RExpr " + gxOf(r.Results[0]) + ")" // (value, nil)
			}
		}
		return "ROk"
	}
	if valueResult && len(r.Results) == 1 {
		return "(RExpr " + gxOf(last) + ")"
	}
	if call, isCall := last.(*ast.CallExpr); isCall && nestedGuards && !isErrorCtor(call) && strings.HasPrefix(errOf(last), "?") {
		return "(RExpr " + gxOf(last) + ")" // "return k.SetX(ctx, v)": the result of another keeper call
	}
	return "(RErr " + coqStr(errOf(last)) + ")"
}

func isErrorCtor(c *ast.CallExpr) bool {
	if sel, ok := c.Fun.(*ast.SelectorExpr); ok {
		switch sel.Sel.Name {
		case "Wrap", "Wrapf", "Errorf":
			return true
		}
	}
	return false
}

// the body of an if that only returns: one return statement, or a print followed by a return
func singleReturn(b *ast.BlockStmt) (ast.Stmt, bool) {
	if b != nil && len(b.List) == 1 {
		if _, ok := b.List[0].(*ast.ReturnStmt); ok {
			return b.List[0], true
		}
	}
	if b != nil && len(b.List) == 2 { // fmt.Println(...) ; return ...
		if es, ok := b.List[0].(*ast.ExprStmt); ok {
			if call, ok := es.X.(*ast.CallExpr); ok && strings.HasPrefix(exprString(call.Fun), "fmt.Print") {
				if _, ok := b.List[1].(*ast.ReturnStmt); ok {
					return b.List[1], true
				}
			}
		}
	}
	return nil, false
}

// "err != nil"
func isErrNotNil(e ast.Expr) bool {
	b, ok := e.(*ast.BinaryExpr)
	if !ok || b.Op != token.NEQ {
		return false
	}
	l, ok1 := b.X.(*ast.Ident)
	r, ok2 := b.Y.(*ast.Ident)
	return ok1 && ok2 && l.Name == "err" && r.Name == "nil"
}

// "..., err := CALL"
func errAssign(s ast.Stmt) (ast.Expr, bool) {
	a, ok := s.(*ast.AssignStmt)
	if !ok || a.Tok != token.DEFINE || len(a.Rhs) != 1 || len(a.Lhs) == 0 {
		return nil, false
	}
	if id, ok := a.Lhs[len(a.Lhs)-1].(*ast.Ident); !ok || id.Name != "err" {
		return nil, false
	}
	if _, ok := a.Rhs[0].(*ast.CallExpr); !ok {
		return nil, false
	}
	return a.Rhs[0], true
}

// "ok := CALL" and "!ok"
func okAssign(s ast.Stmt) (ast.Expr, bool) {
	a, ok := s.(*ast.AssignStmt)
	if !ok || a.Tok != token.DEFINE || len(a.Rhs) != 1 || len(a.Lhs) != 1 {
		return nil, false
	}
	if _, ok := a.Lhs[0].(*ast.Ident); !ok {
		return nil, false
	}
	if _, ok := a.Rhs[0].(*ast.CallExpr); !ok {
		return nil, false
	}
	return a.Rhs[0], true
}

// "!name" for the name the init statement has just defined
func isNotOk(init ast.Stmt, e ast.Expr) bool {
	u, ok := e.(*ast.UnaryExpr)
	if !ok || u.Op != token.NOT {
		return false
	}
	id, ok := u.X.(*ast.Ident)
	return ok && id.Name == init.(*ast.AssignStmt).Lhs[0].(*ast.Ident).Name
}

// "var name T" without a value
func isPlainVarDecl(s *ast.DeclStmt) bool {
	gd, ok := s.Decl.(*ast.GenDecl)
	if !ok || gd.Tok != token.VAR {
		return false
	}
	for _, sp := range gd.Specs {
		vs, ok := sp.(*ast.ValueSpec)
		if !ok || len(vs.Values) != 0 {
			return false
		}
	}
	return true
}

// x.Logger().Debug(...) / Info / Error
func isLoggingCall(e ast.Expr) bool {
	call, ok := e.(*ast.CallExpr)
	if !ok {
		return false
	}
	sel, ok := call.Fun.(*ast.SelectorExpr)
	if !ok {
		return false
	}
	switch sel.Sel.Name {
	case "Debug", "Info", "Warn", "Error":
	default:
		return false
	}
	inner, ok := sel.X.(*ast.CallExpr)
	if !ok {
		return false
	}
	isel, ok := inner.Fun.(*ast.SelectorExpr)
	return ok && isel.Sel.Name == "Logger" && len(inner.Args) == 0
}

func guardsOf(body *ast.BlockStmt) []string { return guardsOfWithPending(body, nil) }

func guardsOfWithPending(body *ast.BlockStmt, pendingCall ast.Expr) []string {
	var out []string
	guard := func(c, r string) { out = append(out, "{| g_cond := "+c+"; g_ret := "+r+" |}") }
	// pendingCall: "_, err := CALL" waiting for its "if err != nil"
	for i, st := range body.List {
		switch s := st.(type) {
		case *ast.AssignStmt:
			if call, ok := errAssign(s); ok && pendingCall == nil {
				pendingCall = call
				if bindings != nil && len(s.Lhs) == 2 {
					if id, ok := s.Lhs[0].(*ast.Ident); ok && id.Name != "_" {
						bindings[id.Name] = gxOf(call)
					}
				}
				continue
			}
			if bindings != nil && s.Tok == token.DEFINE && len(s.Lhs) == 1 && len(s.Rhs) == 1 {
				if id, ok := s.Lhs[0].(*ast.Ident); ok && id.Name != "_" && id.Name != "err" {
					bindings[id.Name] = gxOf(s.Rhs[0])
					continue
				}
			}
			guard("(GUnknown "+coqStr("assignment")+")", "(RUnknown \"\")")
		case *ast.IfStmt:
			ret, ok := singleReturn(s.Body)
			if ok && s.Else != nil && nestedGuards {
				// "if A { return x } else if B { return y }": every branch returns, so the chain is a sequence of guards
				if next, isIf := s.Else.(*ast.IfStmt); isIf {
					first := *s
					first.Else = nil
					saved := pendingCall
					sub := guardsOfWithPending(&ast.BlockStmt{List: []ast.Stmt{&first, next}}, saved)
					pendingCall = nil
					out = append(out, sub...)
					continue
				}
			}
			if !ok && s.Else == nil && s.Init == nil && nestedGuards {
				// "if C { guards }": every inner guard applies under C
				inner := guardsOf(s.Body)
				c := gxOf(s.Cond)
				for _, g := range inner {
					out = append(out, strings.Replace(g, "{| g_cond := ", "{| g_cond := (GBin \"&&\" "+c+" ", 1))
					out[len(out)-1] = strings.Replace(out[len(out)-1], "; g_ret := ", "); g_ret := ", 1)
				}
				continue
			}
			if !ok || s.Else != nil {
				guard("(GUnknown "+coqStr("if with a body that is not a single return")+")", "(RUnknown \"\")")
				continue
			}
			switch {
			case s.Init != nil:
				if call, ok := errAssign(s.Init); ok && isErrNotNil(s.Cond) {
					guard("(GFails "+gxOf(call)+")", retOf(ret))
				} else if call, ok := okAssign(s.Init); ok && isNotOk(s.Init, s.Cond) {
					guard("(GNot "+gxOf(call)+")", retOf(ret))
				} else {
					guard("(GUnknown "+coqStr("if with init")+")", "(RUnknown \"\")")
				}
			case isErrNotNil(s.Cond):
				if pendingCall != nil {
					guard("(GFails "+gxOf(pendingCall)+")", retOf(ret))
					pendingCall = nil
				} else {
					guard("(GUnknown "+coqStr("err != nil without a call")+")", "(RUnknown \"\")")
				}
			default:
				guard(gxOf(s.Cond), retOf(ret))
			}
		case *ast.SwitchStmt:
			if s.Init != nil || s.Tag != nil {
				guard("(GUnknown "+coqStr("switch with tag")+")", "(RUnknown \"\")")
				continue
			}
			for _, cc := range s.Body.List {
				c := cc.(*ast.CaseClause)
				if len(c.List) != 1 || len(c.Body) != 1 {
					guard("(GUnknown "+coqStr("case shape")+")", "(RUnknown \"\")")
					continue
				}
				guard(gxOf(c.List[0]), retOf(c.Body[0]))
			}
		case *ast.ReturnStmt:
			if i == len(body.List)-1 {
				guard("GTrue", retOf(s))
			} else {
				guard("(GUnknown "+coqStr("early return")+")", "(RUnknown \"\")")
			}
		case *ast.DeclStmt:
			if bindings != nil && isPlainVarDecl(s) {
				continue // "var err error"
			}
			guard("(GUnknown "+coqStr("declaration")+")", "(RUnknown \"\")")
		case *ast.ExprStmt:
			if bindings != nil && isLoggingCall(s.X) {
				continue // k.Logger().Debug(...): no effect on the result
			}
			guard("(GUnknown "+coqStr("expression statement")+")", "(RUnknown \"\")")
		default:
			guard("(GUnknown "+coqStr(fmt.Sprintf("%T", st))+")", "(RUnknown \"\")")
		}
	}
	if pendingCall != nil {
		guard("(GUnknown "+coqStr("call result never tested")+")", "(RUnknown \"\")")
	}
	return out
}

func genGuards() (string, error) {
	fset := token.NewFileSet()
	f, err := parser.ParseFile(fset, filepath.Join(repoRoot, "validation.go"), nil, 0)
	if err != nil {
		return "", err
	}
	guardPackages = map[string]bool{}
	for _, im := range f.Imports {
		p, _ := strconv.Unquote(im.Path.Value)
		name := filepath.Base(p)
		if im.Name != nil {
			name = im.Name.Name
		}
		guardPackages[name] = true
	}
	var b strings.Builder
	b.WriteString("(* GENERATED by `harness factgen` from /repo/validation.go — do not edit. *)\nFrom Coq Require Import ZArith List String.\nRequire Import Tie.GuardLang.\nImport ListNotations.\nOpen Scope string_scope.\nOpen Scope Z_scope.\n\n")
	found := map[string]bool{}
	for _, d := range f.Decls {
		fd, ok := d.(*ast.FuncDecl)
		if !ok || fd.Recv == nil || len(fd.Recv.List) != 1 || fd.Body == nil {
			continue
		}
		recv := exprString(fd.Recv.List[0].Type)
		for _, m := range guardMethods {
			if recv == m[0] && fd.Name.Name == m[1] {
				name := "x_guards_" + m[0] + "_" + m[1]
				found[name] = true
				b.WriteString("Definition " + name + " : list guard := [\n  " + strings.Join(guardsOf(fd.Body), ";\n  ") + "\n].\n\n")
			}
		}
	}
	// plain functions of other files
	for _, pf := range [][2]string{{"ante/commission_limit.go", "rateCheck"}} {
		name := "x_guards_" + pf[1]
		ff, err := parser.ParseFile(token.NewFileSet(), filepath.Join(repoRoot, pf[0]), nil, 0)
		if err != nil {
			return "", err
		}
		for _, im := range ff.Imports {
			p, _ := strconv.Unquote(im.Path.Value)
			n := filepath.Base(p)
			if im.Name != nil {
				n = im.Name.Name
			}
			guardPackages[n] = true
		}
		done := false
		for _, d := range ff.Decls {
			if fd, ok := d.(*ast.FuncDecl); ok && fd.Recv == nil && fd.Name.Name == pf[1] && fd.Body != nil {
				b.WriteString("Definition " + name + " : list guard := [\n  " + strings.Join(guardsOf(fd.Body), ";\n  ") + "\n].\n\n")
				done = true
			}
		}
		if !done {
			b.WriteString("Definition " + name + " : list guard := [{| g_cond := GUnknown \"function not found\"; g_ret := RUnknown \"\" |}].\n\n")
		}
	}
	for _, m := range guardMethods {
		name := "x_guards_" + m[0] + "_" + m[1]
		if !found[name] {
			b.WriteString("Definition " + name + " : list guard := [{| g_cond := GUnknown \"method not found\"; g_ret := RUnknown \"\" |}].\n\n")
		}
	}
	return b.String(), nil
}

// ---- conversions.go: the two record converters as field maps -------------------------------------------------------------
// Each converter is one composite literal; it is flattened into (destination field path, source expression) pairs, nested
// literals contributing dotted paths and calls kept as text. Tie/Guards.v compares the pairs with the model's table.

func srcString(e ast.Expr) string {
	switch x := e.(type) {
	case *ast.CallExpr:
		var as []string
		for _, a := range x.Args {
			as = append(as, srcString(a))
		}
		return srcString(x.Fun) + "(" + strings.Join(as, ",") + ")"
	case *ast.ParenExpr:
		return srcString(x.X)
	case *ast.UnaryExpr:
		return x.Op.String() + srcString(x.X)
	case *ast.BasicLit:
		return x.Value
	case *ast.SelectorExpr:
		return srcString(x.X) + "." + x.Sel.Name
	}
	return exprString(e)
}

func flattenLit(prefix string, lit *ast.CompositeLit, out *[][2]string) {
	for _, el := range lit.Elts {
		kv, ok := el.(*ast.KeyValueExpr)
		if !ok {
			*out = append(*out, [2]string{prefix + "?", "positional element"})
			continue
		}
		key := prefix + exprString(kv.Key)
		if inner, ok := kv.Value.(*ast.CompositeLit); ok {
			flattenLit(key+".", inner, out)
			continue
		}
		*out = append(*out, [2]string{key, srcString(kv.Value)})
	}
}

func init() { factGenerators["ExtractedConversions.v"] = genConversions }

func genConversions() (string, error) {
	fset := token.NewFileSet()
	f, err := parser.ParseFile(fset, filepath.Join(repoRoot, "conversions.go"), nil, 0)
	if err != nil {
		return "", err
	}
	var b strings.Builder
	b.WriteString("(* GENERATED by `harness factgen` from /repo/conversions.go — do not edit. *)\nFrom Coq Require Import List String.\nImport ListNotations.\nOpen Scope string_scope.\n\n")
	for _, name := range []string{"ConvertPOAToStaking", "ConvertStakingToPOA"} {
		var pairs [][2]string
		shape := "single return of a composite literal"
		for _, d := range f.Decls {
			fd, ok := d.(*ast.FuncDecl)
			if !ok || fd.Recv != nil || fd.Name.Name != name || fd.Body == nil {
				continue
			}
			if len(fd.Body.List) != 1 {
				shape = fmt.Sprintf("%d statements", len(fd.Body.List))
				break
			}
			r, ok := fd.Body.List[0].(*ast.ReturnStmt)
			if !ok || len(r.Results) != 1 {
				shape = "not a single return"
				break
			}
			lit, ok := r.Results[0].(*ast.CompositeLit)
			if !ok {
				shape = "returns " + srcString(r.Results[0])
				break
			}
			flattenLit("", lit, &pairs)
		}
		var ps []string
		for _, p := range pairs {
			ps = append(ps, "("+coqStr(p[0])+", "+coqStr(p[1])+")")
		}
		b.WriteString("Definition x_conv_" + name + "_shape : string := " + coqStr(shape) + ".\n")
		b.WriteString("Definition x_conv_" + name + " : list (string * string) := [\n  " + strings.Join(ps, ";\n  ") + "\n].\n\n")
	}
	return b.String(), nil
}

// ---- keeper/msg_server.go: the parameter set UpdateStakingParams stores, as a field map ------------------------------------

func init() { factGenerators["ExtractedParamsMap.v"] = genParamsMap }

func genParamsMap() (string, error) {
	fset := token.NewFileSet()
	f, err := parser.ParseFile(fset, filepath.Join(repoRoot, "keeper", "msg_server.go"), nil, 0)
	if err != nil {
		return "", err
	}
	var pairs [][2]string
	shape := "method not found"
	stored := "?"
	for _, d := range f.Decls {
		fd, ok := d.(*ast.FuncDecl)
		if !ok || fd.Recv == nil || fd.Name.Name != "UpdateStakingParams" || fd.Body == nil {
			continue
		}
		shape = "no Params literal"
		var litVar string
		nlit := 0
		ast.Inspect(fd.Body, func(n ast.Node) bool {
			switch x := n.(type) {
			case *ast.AssignStmt:
				if len(x.Lhs) == 1 && len(x.Rhs) == 1 {
					if lit, ok := x.Rhs[0].(*ast.CompositeLit); ok && strings.HasSuffix(exprString(lit.Type), "Params") {
						nlit++
						if id, ok := x.Lhs[0].(*ast.Ident); ok {
							litVar = id.Name
						}
						pairs = nil
						flattenLit("", lit, &pairs)
						shape = "one Params literal assigned to " + litVar
					}
				}
			case *ast.CallExpr:
				if sel, ok := x.Fun.(*ast.SelectorExpr); ok && sel.Sel.Name == "SetParams" && len(x.Args) == 2 {
					stored = srcString(x.Args[1])
				}
			}
			return true
		})
		if nlit != 1 {
			shape = fmt.Sprintf("%d Params literals", nlit)
		}
	}
	var ps []string
	for _, p := range pairs {
		ps = append(ps, "("+coqStr(p[0])+", "+coqStr(p[1])+")")
	}
	var b strings.Builder
	b.WriteString("(* GENERATED by `harness factgen` from /repo/keeper/msg_server.go — do not edit. *)\nFrom Coq Require Import List String.\nImport ListNotations.\nOpen Scope string_scope.\n\n")
	b.WriteString("Definition x_params_shape : string := " + coqStr(shape) + ".\n")
	b.WriteString("Definition x_params_stored : string := " + coqStr(stored) + ".\n")
	b.WriteString("Definition x_params_map : list (string * string) := [\n  " + strings.Join(ps, ";\n  ") + "\n].\n")
	return b.String(), nil
}


// ---- the authority gate: keeper.IsAdmin and the first statement of every message handler ------------------------------------

func init() { factGenerators["ExtractedAuthority.v"] = genAuthority }

func methodBody(file, recvSuffix, name string) (*ast.BlockStmt, error) {
	f, err := parser.ParseFile(token.NewFileSet(), filepath.Join(repoRoot, file), nil, 0)
	if err != nil {
		return nil, err
	}
	for _, im := range f.Imports {
		p, _ := strconv.Unquote(im.Path.Value)
		n := filepath.Base(p)
		if im.Name != nil {
			n = im.Name.Name
		}
		guardPackages[n] = true
	}
	for _, d := range f.Decls {
		if fd, ok := d.(*ast.FuncDecl); ok && fd.Recv != nil && len(fd.Recv.List) == 1 && fd.Name.Name == name && fd.Body != nil &&
			strings.HasSuffix(exprString(fd.Recv.List[0].Type), recvSuffix) {
			return fd.Body, nil
		}
	}
	return nil, nil
}

func genAuthority() (string, error) {
	pairArguments, nestedGuards, bindings = true, true, map[string]string{}
	defer func() { pairArguments, nestedGuards, bindings = false, false, nil }()
	var b strings.Builder
	b.WriteString("(* GENERATED by `harness factgen` from /repo/keeper/keeper.go and /repo/keeper/msg_server.go — do not edit. *)\nFrom Coq Require Import ZArith List String.\nRequire Import Tie.GuardLang.\nImport ListNotations.\nOpen Scope string_scope.\nOpen Scope Z_scope.\n\n")
	unknown := "[{| g_cond := GUnknown \"method not found\"; g_ret := RUnknown \"\" |}]"
	body, err := methodBody("keeper/keeper.go", "Keeper", "IsAdmin")
	if err != nil {
		return "", err
	}
	if body != nil {
		valueResult = true
		gs := guardsOf(body)
		valueResult = false
		b.WriteString("Definition x_guards_Keeper_IsAdmin : list guard := [\n  " + strings.Join(gs, ";\n  ") + "\n].\n\n")
	} else {
		b.WriteString("Definition x_guards_Keeper_IsAdmin : list guard := " + unknown + ".\n\n")
	}
	body, err = methodBody("keeper/keeper.go", "Keeper", "IsSenderValidator")
	if err != nil {
		return "", err
	}
	if body != nil {
		b.WriteString("Definition x_guards_Keeper_IsSenderValidator : list guard := [\n  " + strings.Join(guardsOf(body), ";\n  ") + "\n].\n\n")
	} else {
		b.WriteString("Definition x_guards_Keeper_IsSenderValidator : list guard := " + unknown + ".\n\n")
	}
	// GetAdmin — what the authority query reports — and the query handler's response
	body, err = methodBody("keeper/keeper.go", "Keeper", "GetAdmin")
	if err != nil {
		return "", err
	}
	if body != nil {
		valueResult = true
		gs := guardsOf(body)
		valueResult = false
		b.WriteString("Definition x_guards_Keeper_GetAdmin : list guard := [\n  " + strings.Join(gs, ";\n  ") + "\n].\n\n")
	} else {
		b.WriteString("Definition x_guards_Keeper_GetAdmin : list guard := " + unknown + ".\n\n")
	}
	reported := "?"
	if qb, err := methodBody("keeper/query_server.go", "queryServer", "PoaAuthority"); err != nil {
		return "", err
	} else if qb != nil && len(qb.List) == 1 {
		if ret, ok := qb.List[0].(*ast.ReturnStmt); ok && len(ret.Results) == 2 {
			if u, ok := ret.Results[0].(*ast.UnaryExpr); ok && u.Op == token.AND {
				if lit, ok := u.X.(*ast.CompositeLit); ok && len(lit.Elts) == 1 {
					if kv, ok := lit.Elts[0].(*ast.KeyValueExpr); ok && exprString(kv.Key) == "Authority" {
						if id, ok := ret.Results[1].(*ast.Ident); ok && id.Name == "nil" {
							reported = srcString(kv.Value)
						}
					}
				}
			}
		}
	}
	b.WriteString("Definition x_authority_query_reports : string := " + coqStr(reported) + ".\n\n")
	// CreateValidator is open to everybody: its body never consults IsAdmin
	mentions := "true"
	if cb, err := methodBody("keeper/msg_server.go", "msgServer", "CreateValidator"); err != nil {
		return "", err
	} else if cb != nil {
		mentions = "false"
		ast.Inspect(cb, func(n ast.Node) bool {
			if sel, ok := n.(*ast.SelectorExpr); ok && (sel.Sel.Name == "IsAdmin" || sel.Sel.Name == "GetAdmin") {
				mentions = "true"
			}
			return true
		})
	}
	b.WriteString("Definition x_mentions_IsAdmin_CreateValidator : bool := " + mentions + ".\n\n")
	for _, h := range []string{"SetPower", "RemoveValidator", "RemovePending", "UpdateStakingParams"} {
		body, err := methodBody("keeper/msg_server.go", "msgServer", h)
		if err != nil {
			return "", err
		}
		first := unknown
		if body != nil && len(body.List) > 0 {
			bindings = map[string]string{}
			gs := guardsOf(&ast.BlockStmt{List: body.List[:1]})
			first = "[" + strings.Join(gs, "; ") + "]"
		}
		b.WriteString("Definition x_first_guard_" + h + " : list guard := " + first + ".\n\n")
	}
	// the per-block limit: the statement of SetPower whose condition reads msg.Unsafe
	limit := unknown
	if body, err := methodBody("keeper/msg_server.go", "msgServer", "SetPower"); err != nil {
		return "", err
	} else if body != nil {
		var found []ast.Stmt
		for _, st := range body.List {
			if ifs, ok := st.(*ast.IfStmt); ok {
				reads := false
				ast.Inspect(ifs.Cond, func(n ast.Node) bool {
					if sel, ok := n.(*ast.SelectorExpr); ok && sel.Sel.Name == "Unsafe" {
						reads = true
					}
					return true
				})
				if reads {
					found = append(found, st)
				}
			}
		}
		if len(found) == 1 {
			bindings = map[string]string{}
			limit = "[\n  " + strings.Join(guardsOf(&ast.BlockStmt{List: found}), ";\n  ") + "\n]"
		}
	}
	b.WriteString("Definition x_limit_SetPower : list guard := " + limit + ".\n\n")
	return b.String(), nil
}


// ---- keeper helpers that are sequences of guarded returns: ensureActiveValidator (C02), sameOperator (C10) -----------------

func init() { factGenerators["ExtractedKeeper.v"] = genKeeperGuards }

func genKeeperGuards() (string, error) {
	pairArguments, nestedGuards, bindings = true, true, map[string]string{}
	defer func() { pairArguments, nestedGuards, bindings, valueResult = false, false, nil, false }()
	var b strings.Builder
	b.WriteString("(* GENERATED by `harness factgen` from /repo/keeper/poa.go and /repo/keeper/pending.go — do not edit. *)\nFrom Coq Require Import ZArith List String.\nRequire Import Tie.GuardLang.\nImport ListNotations.\nOpen Scope string_scope.\nOpen Scope Z_scope.\n\n")
	unknown := "[{| g_cond := GUnknown \"method not found\"; g_ret := RUnknown \"\" |}]"
	for _, m := range [][3]string{{"keeper/poa.go", "ensureActiveValidator", ""}, {"keeper/pending.go", "sameOperator", "value"},
		{"keeper/keeper.go", "ResetCachedTotalPower", ""}, {"keeper/keeper.go", "ResetAbsoluteBlockPower", ""},
		{"keeper/store.go", "IncreaseAbsoluteChangedInBlockPower", ""}} {
		body, err := methodBody(m[0], "Keeper", m[1])
		if err != nil {
			return "", err
		}
		def := unknown
		if body != nil {
			bindings = map[string]string{}
			valueResult = m[2] == "value"
			def = "[\n  " + strings.Join(guardsOf(body), ";\n  ") + "\n]"
			valueResult = false
		}
		b.WriteString("Definition x_guards_Keeper_" + m[1] + " : list guard := " + def + ".\n\n")
	}
	// the statement of the module's BeginBlocker that reads the block height: the two resets
	reset := unknown
	if body, err := methodBody("module/abci.go", "AppModule", "BeginBlocker"); err != nil {
		return "", err
	} else if body != nil {
		var found []ast.Stmt
		for _, st := range body.List {
			if ifs, ok := st.(*ast.IfStmt); ok {
				reads := false
				ast.Inspect(ifs.Cond, func(n ast.Node) bool {
					if sel, ok := n.(*ast.SelectorExpr); ok && sel.Sel.Name == "BlockHeight" {
						reads = true
					}
					return true
				})
				if reads {
					found = append(found, st)
				}
			}
		}
		if len(found) == 1 {
			bindings = map[string]string{}
			reset = "[\n  " + strings.Join(guardsOf(&ast.BlockStmt{List: found}), ";\n  ") + "\n]"
		}
	}
	b.WriteString("Definition x_begin_blocker_reset : list guard := " + reset + ".\n\n")
	return b.String(), nil
}


// ---- keeper/slashing.go: the calls setSlashingInfo / clearSlashingInfo make, in order, and the signing info they store (C13) ----

func init() { factGenerators["ExtractedSigningInfo.v"] = genSigningInfo }

// every call of a statement list in source order, as "receiver.path.Method" (arguments dropped); conversions such as
// sdk.ConsAddress(x) and the context unwrapping are not calls on a keeper and are left out
func callsInOrder(body *ast.BlockStmt) []string {
	var out []string
	ast.Inspect(body, func(n ast.Node) bool {
		call, ok := n.(*ast.CallExpr)
		if !ok {
			return true
		}
		if sel, ok := call.Fun.(*ast.SelectorExpr); ok {
			if p, ok := selPath(sel); ok && len(p) >= 2 && p[0] != "sdk" && p[0] != "sdkCtx" && p[0] != "ctx" && p[0] != "fmt" && p[len(p)-1] != "Logger" {
				out = append(out, strings.Join(p, "."))
			}
		}
		return true
	})
	return out
}

func genSigningInfo() (string, error) {
	var b strings.Builder
	b.WriteString("(* GENERATED by `harness factgen` from /repo/keeper/slashing.go — do not edit. *)\nFrom Coq Require Import List String.\nImport ListNotations.\nOpen Scope string_scope.\n\n")
	for _, name := range []string{"setSlashingInfo", "clearSlashingInfo"} {
		body, err := methodBody("keeper/slashing.go", "Keeper", name)
		if err != nil {
			return "", err
		}
		calls := []string{"?"}
		var pairs [][2]string
		lits := 0
		if body != nil {
			calls = callsInOrder(body)
			ast.Inspect(body, func(n ast.Node) bool {
				if lit, ok := n.(*ast.CompositeLit); ok && strings.HasSuffix(exprString(lit.Type), "ValidatorSigningInfo") {
					lits++
					flattenLit("", lit, &pairs)
					return false
				}
				return true
			})
		}
		cs := make([]string, len(calls))
		for i, c := range calls {
			cs[i] = coqStr(c)
		}
		ps := make([]string, len(pairs))
		for i, p := range pairs {
			ps[i] = "(" + coqStr(p[0]) + ", " + coqStr(p[1]) + ")"
		}
		b.WriteString("Definition x_" + name + "_calls : list string := [" + strings.Join(cs, "; ") + "].\n")
		b.WriteString(fmt.Sprintf("Definition x_%s_literals : nat := %d.\n", name, lits))
		b.WriteString("Definition x_" + name + "_info : list (string * string) := [\n  " + strings.Join(ps, ";\n  ") + "\n].\n\n")
	}
	return b.String(), nil
}


// ---- keeper.SetPOAPower: the expressions that make up the term a change adds to the running sum (C05, C14) -----------------

func init() { factGenerators["ExtractedSpend.v"] = genSpend }

func goText(e ast.Node) string {
	var sb strings.Builder
	if err := printer.Fprint(&sb, token.NewFileSet(), e); err != nil {
		return "?"
	}
	return strings.Join(strings.Fields(sb.String()), " ")
}

func genSpend() (string, error) {
	var b strings.Builder
	b.WriteString("(* GENERATED by `harness factgen` from /repo/keeper/poa.go — do not edit. *)\nFrom Coq Require Import ZArith List String.\nRequire Import Tie.GuardLang.\nImport ListNotations.\nOpen Scope string_scope.\nOpen Scope Z_scope.\n\n")
	body, err := methodBody("keeper/poa.go", "Keeper", "SetPOAPower")
	if err != nil {
		return "", err
	}
	// every definition or assignment of these locals at the top level of the body, in order: "name := text" / "name = text";
	// an if statement at the top level that assigns one of them: "if COND { name = text }"
	watch := map[string]bool{"newBFTConsensusPower": true, "currentTokens": true, "powerBefore": true, "absPowerDiff": true}
	var defs []string
	var increase []string
	if body != nil {
		assignText := func(a *ast.AssignStmt) (string, bool) {
			if len(a.Lhs) == 1 && len(a.Rhs) == 1 {
				if id, ok := a.Lhs[0].(*ast.Ident); ok && watch[id.Name] {
					return id.Name + " " + a.Tok.String() + " " + goText(a.Rhs[0]), true
				}
				if sel, ok := a.Lhs[0].(*ast.SelectorExpr); ok && exprString(sel) == "val.Tokens" {
					return "val.Tokens " + a.Tok.String() + " " + goText(a.Rhs[0]), true
				}
			}
			return "", false
		}
		for _, st := range body.List {
			switch s := st.(type) {
			case *ast.AssignStmt:
				if t, ok := assignText(s); ok {
					defs = append(defs, t)
				}
			case *ast.IfStmt:
				touched := false
				ast.Inspect(s, func(n ast.Node) bool {
					if a, ok := n.(*ast.AssignStmt); ok {
						if _, ok := assignText(a); ok {
							touched = true
						}
					}
					return true
				})
				if touched {
					defs = append(defs, goText(s))
				}
			}
		}
		ast.Inspect(body, func(n ast.Node) bool {
			if call, ok := n.(*ast.CallExpr); ok {
				if sel, ok := call.Fun.(*ast.SelectorExpr); ok && sel.Sel.Name == "IncreaseAbsoluteChangedInBlockPower" {
					increase = append(increase, goText(call))
				}
			}
			return true
		})
	}
	q := func(l []string) string {
		qs := make([]string, len(l))
		for i, x := range l {
			qs[i] = coqStr(x)
		}
		return "[\n  " + strings.Join(qs, ";\n  ") + "\n]"
	}
	b.WriteString("Definition x_setpoa_spend_definitions : list string := " + q(defs) + ".\n\n")
	b.WriteString("Definition x_setpoa_increase_calls : list string := " + q(increase) + ".\n\n")
	// the same statements as expression trees (Tie/SpendSem.v interprets them): the definition of the new power, of the tokens
	// read, the initial value, the condition and the conditional value of powerBefore, and the term added
	pairArguments, nestedGuards, bindings = true, true, map[string]string{}
	defer func() { pairArguments, nestedGuards, bindings = false, false, nil }()
	tree := map[string]string{"newBFTConsensusPower": "", "currentTokens": "", "powerBefore": "", "absPowerDiff": ""}
	cond, then := "(GUnknown \"no conditional assignment of powerBefore\")", "(GUnknown \"no conditional assignment of powerBefore\")"
	nCond := 0
	if body != nil {
		for _, st := range body.List {
			switch s := st.(type) {
			case *ast.AssignStmt:
				if len(s.Lhs) == 1 && len(s.Rhs) == 1 && s.Tok == token.DEFINE {
					if id, ok := s.Lhs[0].(*ast.Ident); ok {
						if _, watched := tree[id.Name]; watched {
							if tree[id.Name] != "" {
								tree[id.Name] = "(GUnknown \"defined twice\")"
							} else {
								tree[id.Name] = gxOf(s.Rhs[0])
							}
						}
					}
				}
			case *ast.IfStmt:
				if s.Init == nil && s.Else == nil && len(s.Body.List) == 1 {
					if a, ok := s.Body.List[0].(*ast.AssignStmt); ok && a.Tok == token.ASSIGN && len(a.Lhs) == 1 && len(a.Rhs) == 1 && exprString(a.Lhs[0]) == "powerBefore" {
						cond, then = gxOf(s.Cond), gxOf(a.Rhs[0])
						nCond++
					}
				}
			}
		}
	}
	for _, name := range []string{"newBFTConsensusPower", "currentTokens", "powerBefore", "absPowerDiff"} {
		v := tree[name]
		if v == "" {
			v = "(GUnknown \"not defined at the top level\")"
		}
		b.WriteString("Definition x_spend_" + name + " : gx := " + v + ".\n")
	}
	b.WriteString("Definition x_spend_powerBefore_cond : gx := " + cond + ".\n")
	b.WriteString("Definition x_spend_powerBefore_then : gx := " + then + ".\n")
	b.WriteString(fmt.Sprintf("Definition x_spend_powerBefore_conditionals : nat := %d.\n", nCond))
	return b.String(), nil
}


// ---- msgServer.RemoveValidator: the last-validator guard and the existence / bonded test (C04) ------------------------------

func init() { factGenerators["ExtractedRemove.v"] = genRemove }

func genRemove() (string, error) {
	pairArguments, nestedGuards, bindings = true, true, map[string]string{}
	defer func() { pairArguments, nestedGuards, bindings = false, false, nil }()
	var b strings.Builder
	b.WriteString("(* GENERATED by `harness factgen` from /repo/keeper/msg_server.go — do not edit. *)\nFrom Coq Require Import ZArith List String.\nRequire Import Tie.GuardLang.\nImport ListNotations.\nOpen Scope string_scope.\nOpen Scope Z_scope.\n\n")
	body, err := methodBody("keeper/msg_server.go", "msgServer", "RemoveValidator")
	if err != nil {
		return "", err
	}
	// "for _, val := range vals { if COND { others++ } }": the condition under which a validator counts as another signer
	counts := "(GUnknown \"no loop that increments others\")"
	nCount := 0
	// "if others == 0 { return ... }"
	guardOthers := "[{| g_cond := GUnknown \"no test of others\"; g_ret := RUnknown \"\" |}]"
	// statements between the authority gate and the loop that could change "others" are listed by kind
	if body != nil {
		for _, st := range body.List {
			switch s := st.(type) {
			case *ast.RangeStmt:
				if len(s.Body.List) == 1 {
					if ifs, ok := s.Body.List[0].(*ast.IfStmt); ok && ifs.Init == nil && ifs.Else == nil && len(ifs.Body.List) == 1 {
						if inc, ok := ifs.Body.List[0].(*ast.IncDecStmt); ok && inc.Tok == token.INC && exprString(inc.X) == "others" {
							counts = gxOf(ifs.Cond)
							nCount++
						}
					}
				}
			case *ast.IfStmt:
				mentions := false
				ast.Inspect(s.Cond, func(n ast.Node) bool {
					if id, ok := n.(*ast.Ident); ok && id.Name == "others" {
						mentions = true
					}
					return true
				})
				if mentions {
					guardOthers = "[" + strings.Join(guardsOf(&ast.BlockStmt{List: []ast.Stmt{s}}), "; ") + "]"
				}
			}
		}
	}
	// every place that writes "others"
	writes := 0
	if body != nil {
		ast.Inspect(body, func(n ast.Node) bool {
			switch x := n.(type) {
			case *ast.IncDecStmt:
				if exprString(x.X) == "others" {
					writes++
				}
			case *ast.AssignStmt:
				for _, l := range x.Lhs {
					if exprString(l) == "others" {
						writes++
					}
				}
			}
			return true
		})
	}
	b.WriteString("Definition x_remove_counts_as_other_signer : gx := " + counts + ".\n\n")
	b.WriteString(fmt.Sprintf("Definition x_remove_counting_loops : nat := %d.\n\n", nCount))
	b.WriteString(fmt.Sprintf("Definition x_remove_writes_of_others : nat := %d.\n\n", writes))
	b.WriteString("Definition x_remove_last_validator_guard : list guard := " + guardOthers + ".\n")
	return b.String(), nil
}
