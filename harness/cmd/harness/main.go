package main

import (
	"fmt"
	"os"
)

func main() {
	if len(os.Args) < 2 {
		fmt.Fprintln(os.Stderr, "usage: harness <pure|l1|factgen|replay> ...")
		os.Exit(2)
	}
	var err error
	switch os.Args[1] {
	case "factgen":
		err = cmdFactgen(os.Args[2:])
	case "l1":
		err = cmdL1(os.Args[2:])
	case "pure":
		err = cmdPure(os.Args[2:])
	default:
		err = fmt.Errorf("unknown command %q", os.Args[1])
	}
	if err != nil {
		fmt.Fprintln(os.Stderr, "harness:", err)
		os.Exit(2)
	}
}
