package main

// Source census: facts read off /repo's Go source files (go/parser, no type checking) for the C12 tie — where
// process-local state or non-determinism could enter the production packages: struct types and their fields, package-level
// variables that can hold mutable state, and uses of wall-clock time, the OS environment, randomness, goroutines and
// synchronisation primitives.

import (
	"fmt"
	"go/ast"
	"go/parser"
	"go/token"
	"os"
	"path/filepath"
	"sort"
	"strings"
)

const repoRoot = "/repo"

var sourceDirs = []string{".", "keeper", "module", "ante"}

func productionFile(name string) bool {
	if !strings.HasSuffix(name, ".go") || strings.HasSuffix(name, "_test.go") {
		return false
	}
	for _, suf := range []string{".pb.go", ".pb.gw.go", ".pulsar.go"} {
		if strings.HasSuffix(name, suf) {
			return false
		}
	}
	return true
}

func exprString(e ast.Expr) string {
	switch x := e.(type) {
	case *ast.Ident:
		return x.Name
	case *ast.SelectorExpr:
		return exprString(x.X) + "." + x.Sel.Name
	case *ast.StarExpr:
		return "*" + exprString(x.X)
	case *ast.ArrayType:
		return "[]" + exprString(x.Elt)
	case *ast.MapType:
		return "map[" + exprString(x.Key) + "]" + exprString(x.Value)
	case *ast.IndexExpr:
		return exprString(x.X) + "[" + exprString(x.Index) + "]"
	case *ast.IndexListExpr:
		var ps []string
		for _, i := range x.Indices {
			ps = append(ps, exprString(i))
		}
		return exprString(x.X) + "[" + strings.Join(ps, ",") + "]"
	case *ast.InterfaceType:
		return "interface"
	case *ast.FuncType:
		return "func"
	case *ast.StructType:
		return "struct"
	case *ast.ChanType:
		return "chan"
	}
	return "?"
}

// mutableInit: an initializer that allocates something a later write could change
func mutableInit(vals []ast.Expr) bool {
	if len(vals) == 0 {
		return true // zero value of a declared type: a variable meant to be assigned
	}
	for _, v := range vals {
		switch x := v.(type) {
		case *ast.CompositeLit:
			switch x.Type.(type) {
			case *ast.MapType, *ast.ArrayType:
				return true
			}
		case *ast.UnaryExpr:
			if x.Op == token.AND {
				return true
			}
		case *ast.CallExpr:
			if id, ok := x.Fun.(*ast.Ident); ok && (id.Name == "make" || id.Name == "new") {
				return true
			}
		}
	}
	return false
}

var watchedCalls = map[string]bool{
	"time.Now": true, "time.Since": true, "time.Until": true, "time.After": true, "time.Sleep": true, "time.Tick": true,
	"os.Getenv": true, "os.LookupEnv": true, "os.Environ": true, "os.Hostname": true, "os.Getpid": true,
}
var watchedImports = map[string]bool{"math/rand": true, "math/rand/v2": true, "crypto/rand": true, "sync": true, "sync/atomic": true, "unsafe": true, "runtime": true}

func genSourceCensus() (structs, globals, nondet []string, err error) {
	fset := token.NewFileSet()
	for _, d := range sourceDirs {
		dir := filepath.Join(repoRoot, d)
		ents, e := os.ReadDir(dir)
		if e != nil {
			return nil, nil, nil, e
		}
		for _, ent := range ents {
			if ent.IsDir() || !productionFile(ent.Name()) {
				continue
			}
			rel := filepath.ToSlash(filepath.Join(d, ent.Name()))
			f, e := parser.ParseFile(fset, filepath.Join(dir, ent.Name()), nil, 0)
			if e != nil {
				return nil, nil, nil, e
			}
			for _, im := range f.Imports {
				p := strings.Trim(im.Path.Value, "\"")
				if watchedImports[p] {
					nondet = append(nondet, rel+":import "+p)
				}
			}
			for _, decl := range f.Decls {
				gd, ok := decl.(*ast.GenDecl)
				if !ok {
					continue
				}
				for _, sp := range gd.Specs {
					switch s := sp.(type) {
					case *ast.TypeSpec:
						if st, ok := s.Type.(*ast.StructType); ok && (d == "keeper" || d == "module" || d == "ante") {
							var fs []string
							for _, fl := range st.Fields.List {
								t := exprString(fl.Type)
								if len(fl.Names) == 0 {
									fs = append(fs, t)
								}
								for _, n := range fl.Names {
									fs = append(fs, n.Name+":"+t)
								}
							}
							structs = append(structs, f.Name.Name+"."+s.Name.Name+"{"+strings.Join(fs, ",")+"}")
						}
					case *ast.ValueSpec:
						if gd.Tok != token.VAR {
							continue
						}
						for _, n := range s.Names {
							if n.Name != "_" && mutableInit(s.Values) {
								globals = append(globals, rel+":"+n.Name)
							}
						}
					}
				}
			}
			ast.Inspect(f, func(n ast.Node) bool {
				switch x := n.(type) {
				case *ast.GoStmt:
					nondet = append(nondet, rel+":go statement")
				case *ast.SelectStmt:
					nondet = append(nondet, rel+":select statement")
				case *ast.CallExpr:
					if name := exprString(x.Fun); watchedCalls[name] {
						arg := ""
						if len(x.Args) == 1 {
							if bl, ok := x.Args[0].(*ast.BasicLit); ok {
								arg = "(" + strings.Trim(bl.Value, "\"") + ")"
							}
						}
						nondet = append(nondet, rel+":"+name+arg)
					}
				}
				return true
			})
		}
	}
	sort.Strings(structs)
	sort.Strings(globals)
	sort.Strings(nondet)
	return
}

func init() {
	factGenerators["ExtractedSource.v"] = func() (string, error) {
		structs, globals, nondet, err := genSourceCensus()
		if err != nil {
			return "", err
		}
		var b strings.Builder
		b.WriteString("(* GENERATED by `harness factgen` from the Go source files of /repo (go/parser). Do not edit. *)\n")
		b.WriteString("From Coq Require Import List String.\nImport ListNotations.\nOpen Scope string_scope.\n\n")
		fmt.Fprintf(&b, "Definition x_src_structs : list string := %s.\n", coqStrList(structs))
		fmt.Fprintf(&b, "Definition x_src_mutable_globals : list string := %s.\n", coqStrList(globals))
		fmt.Fprintf(&b, "Definition x_src_nondeterminism : list string := %s.\n", coqStrList(nondet))
		return b.String(), nil
	}
}
