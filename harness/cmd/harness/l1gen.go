package main

import (
	"math/big"
	"math/rand"
)

// simState is the generator's rough idea of the chain (guidance only; never used as an oracle).
type simState struct {
	justAdmitted int // validator admitted most recently (hazard: operate on it again right away)
	justUnjailed int // validator unjailed most recently, -1 if none
	power   map[int]int64 // active validators -> power
	pending map[int]bool
	removed map[int]bool
	jailed  map[int]bool
	history map[int][]int64 // earlier powers per validator
	next    int             // next unused pool identity
	lastRemoved, lastRemovedAt, cur int // validator removed most recently, the block index of that, the current block index
	matured map[int]bool // removed validators whose unbonding period has (probably) ended: their record is gone, they can apply again
}

func (s *simState) total() int64 {
	var t int64
	for _, p := range s.power {
		t += p
	}
	return t
}

func (s *simState) anyActive(r *rand.Rand) int {
	var ids []int
	for id := range s.power {
		ids = append(ids, id)
	}
	if len(ids) == 0 {
		return 0
	}
	// deterministic order before picking
	for i := 0; i < len(ids); i++ {
		for j := i + 1; j < len(ids); j++ {
			if ids[j] < ids[i] {
				ids[i], ids[j] = ids[j], ids[i]
			}
		}
	}
	return pick(r, ids)
}

func anyKey(r *rand.Rand, m map[int]bool) (int, bool) {
	var ids []int
	for id, ok := range m {
		if ok {
			ids = append(ids, id)
		}
	}
	if len(ids) == 0 {
		return 0, false
	}
	for i := 0; i < len(ids); i++ {
		for j := i + 1; j < len(ids); j++ {
			if ids[j] < ids[i] {
				ids[i], ids[j] = ids[j], ids[i]
			}
		}
	}
	return pick(r, ids), true
}

type profileW struct{ workflow, hazard, authority, malformed, noise int }

var profiles = map[string]profileW{
	"workflow":  {70, 15, 5, 5, 5},
	"hazard":    {25, 55, 5, 10, 5},
	"authority": {30, 10, 50, 5, 5},
	"malformed": {30, 15, 5, 45, 5},
	"mixed":     {40, 30, 10, 12, 8},
	"boundary":  {85, 10, 0, 5, 0},
}

func genGenesis(r *rand.Rand, profile string) Genesis {
	g := defaultGenesis()
	n := pick(r, []int{1, 2, 3, 3, 3, 4, 5})
	g.Tokens = nil
	for i := 0; i < n; i++ {
		g.Tokens = append(g.Tokens, pick(r, []int64{1, 2, 3, 5, 10, 10, 10, 20, 33, 50})*1_000_000+pick(r, []int64{0, 0, 0, 1, 999_999}))
	}
	g.MaxVals = pick(r, []uint32{100, 100, 100, 100, 2, 3, 4})
	g.UnbondSecs = pick(r, []int64{10, 20, 30, 40})
	g.Window = pick(r, []int64{3, 4, 6})
	g.JailSecs = pick(r, []int64{3, 5, 10})
	g.MinSignedPc = pick(r, []int64{50, 50, 34, 75})
	g.SlashDownBp = pick(r, []int64{100, 0, 500, 1})
	g.SlashDblBp = pick(r, []int64{500, 500, 0, 10000, 1, 3333})
	return g
}

func (s *simState) boundaryPower(r *rand.Rand, v int) uint64 {
	T := s.total()
	cur := s.power[v]
	lim := T * 30 / 100
	d := pick(r, []int64{1, 1, 2, lim - 1, lim - 1, lim, lim, lim + 1, lim / 2, lim / 3})
	if d < 1 {
		d = 1
	}
	np := cur + d
	if r.Intn(3) == 0 && cur-d >= 1 {
		np = cur - d
	}
	off := pick(r, []int64{0, 0, 0, 1, 999_999, 500_000})
	return uint64(np*1_000_000 + off)
}

func genHistory(r *rand.Rand, profile string) History {
	w, ok := profiles[profile]
	if !ok {
		w = profiles["mixed"]
	}
	g := genGenesis(r, profile)
	if r.Intn(5) == 0 {
		g.Denom = "upoa" // a chain whose bond denom is not the SDK default
	}
	s := &simState{power: map[int]int64{}, pending: map[int]bool{}, removed: map[int]bool{}, jailed: map[int]bool{}, history: map[int][]int64{}, next: len(g.Tokens), justUnjailed: -1, lastRemoved: -1, matured: map[int]bool{}}
	for i, t := range g.Tokens {
		s.power[i] = t / 1_000_000
	}
	h := History{Genesis: g}
	nb := 6 + r.Intn(30)
	victim, victimLeft := -1, 0
	M := uint64(1_000_000)
	minUnbond := int64(10) // smallest unbonding time any generated parameter set has
	lastLong, lastUnbondingRisk := -10, -10
	withEvidence := r.Intn(2) == 0 // half of the histories carry double-sign evidence
	var nowAt []int64              // block time (seconds since genesis) by block index
	var now int64
	for b := 0; b < nb; b++ {
		// H-time (DESIGN.md App. A): a validator's record must outlive its last vote, i.e. two consecutive
		// block intervals stay below the unbonding time (5 s at least in every generated parameter set)
		blk := BlockSpec{Dt: pick(r, []int64{1, 1, 1, 1, 1, 1, 2, 2})}
		if b >= 2 && lastLong < b-2 && r.Intn(5) == 0 {
			blk.Dt = minUnbond * 2 / 5
			if r.Intn(3) == 0 {
				blk.Dt = minUnbond + 1 + int64(r.Intn(40)) // past every maturity; safe only when nothing started unbonding in the last two blocks
				if lastUnbondingRisk >= b-2 {
					blk.Dt = minUnbond * 2 / 5
				} else if blk.Dt > 40 {
					for v := range s.removed {
						s.matured[v] = true
					}
				}
			}
			lastLong = b
		}
		// downtime: a victim misses a run of blocks (long enough to be jailed)
		if victimLeft > 0 {
			blk.Absent = append(blk.Absent, victim)
			victimLeft--
			if victimLeft == 0 {
				s.jailed[victim] = true
				s.history[victim] = append(s.history[victim], s.power[victim])
				delete(s.power, victim)
			}
		} else if b > 1 && r.Intn(12) == 0 && len(s.power) > 0 {
			victim = s.anyActive(r)
			victimLeft = int(g.Window) + 2 + r.Intn(3)
			blk.Absent = append(blk.Absent, victim)
		}
		now += blk.Dt
		nowAt = append(nowAt, now)
		s.cur = b
		// a removed validator is still asked for its votes on the next two blocks: let it miss them (bits recorded after its removal)
		if s.lastRemoved >= 0 && b > s.lastRemovedAt && b <= s.lastRemovedAt+2 && r.Intn(2) == 0 {
			blk.Absent = append(blk.Absent, s.lastRemoved)
		}
		// double-sign evidence: about an active validator, one that is being or has been jailed, one that was removed or just admitted;
		// of a recent height (sometimes too old for x/evidence), with the power it had or an arbitrary one
		if withEvidence && b >= 2 && r.Intn(7) == 0 {
			nev := pick(r, []int{1, 1, 1, 2})
			for k := 0; k < nev; k++ {
				var cands []int
				if len(s.power) > 1 {
					cands = append(cands, s.anyActive(r), s.anyActive(r))
				}
				if id, ok := anyKey(r, s.jailed); ok {
					cands = append(cands, id)
				}
				if id, ok := anyKey(r, s.removed); ok {
					cands = append(cands, id)
				}
				if victim >= 0 {
					cands = append(cands, victim)
				}
				if s.justAdmitted > 0 {
					cands = append(cands, s.justAdmitted)
				}
				if len(cands) == 0 {
					break
				}
				tgt := pick(r, cands)
				back := pick(r, []int{0, 1, 1, 1, 2, 3, 5, 8, 9})
				if back > b {
					back = b
				}
				ev := EvSpec{Cons: tgt, Height: int64(b + 1 - back), Time: nowAt[b-back]}
				if back >= 8 && r.Intn(2) == 0 {
					ev.Time = now - 31 - int64(r.Intn(20)) // beyond both limits of the evidence window
				}
				ev.Power = s.power[tgt]
				if ev.Power == 0 || r.Intn(3) == 0 {
					ev.Power = pick(r, []int64{0, 1, 3, 10, 50, 1_000_000, 9_000_000_000_000})
				}
				blk.Evidence = append(blk.Evidence, ev)
				if _, active := s.power[tgt]; active {
					s.history[tgt] = append(s.history[tgt], s.power[tgt])
					delete(s.power, tgt)
					s.jailed[tgt] = true
				}
				// hazard: operate on the double signer in the very block that punishes it
				if r.Intn(2) == 0 {
					switch r.Intn(4) {
					case 0:
						blk.Txs = append(blk.Txs, tx(rm(pick(r, []int{adminID, tgt}), tgt)))
					case 1:
						blk.Txs = append(blk.Txs, tx(sp(adminID, tgt, uint64(1+r.Intn(30))*1_000_000, true)))
					case 2:
						blk.Txs = append(blk.Txs, tx(MsgSpec{Kind: "unjail", Sender: tgt, Val: tgt}))
					default:
						blk.Txs = append(blk.Txs, tx(createMsg(tgt, tgt)))
					}
				}
			}
		}
		if r.Intn(15) == 0 && len(s.power) > 1 { // sporadic second absentee (usually not enough to jail)
			blk.Absent = append(blk.Absent, s.anyActive(r))
		}
		// hazard: while a validator is being jailed, aim admin / self operations at it (one of them lands in the jailing block)
		if len(blk.Absent) > 0 && victim >= 0 && r.Intn(2) == 0 && b >= 2 {
			switch r.Intn(3) {
			case 0:
				blk.Txs = append(blk.Txs, tx(rm(pick(r, []int{adminID, victim}), victim)))
			case 1:
				blk.Txs = append(blk.Txs, tx(sp(adminID, victim, uint64(1+r.Intn(30))*1_000_000, true)))
			default:
				blk.Txs = append(blk.Txs, tx(MsgSpec{Kind: "unjail", Sender: victim, Val: victim}))
			}
		}
		ntx := pick(r, []int{0, 0, 1, 1, 1, 2, 3})
		if b == 1 {
			ntx = 0 // height 2: CheckTx still runs at height 1, where the PoA decorators are off, DeliverTx at 2, where they are on
		}
		if b == 0 && ntx > 1 {
			ntx = 1
		}
		for t := 0; t < ntx; t++ {
			var msgs []MsgSpec
			nm := pick(r, []int{1, 1, 1, 1, 2, 3})
			for m := 0; m < nm; m++ {
				x := r.Intn(w.workflow + w.hazard + w.authority + w.malformed + w.noise)
				switch {
				case x < w.workflow:
					msgs = append(msgs, s.genWorkflow(r))
				case x < w.workflow+w.hazard:
					msgs = append(msgs, s.genHazard(r, g))
				case x < w.workflow+w.hazard+w.authority:
					msgs = append(msgs, s.genAuthority(r))
				case x < w.workflow+w.hazard+w.authority+w.malformed:
					msgs = append(msgs, s.genMalformed(r))
				default:
					msgs = append(msgs, genNoise(r))
				}
			}
			// a message whose execution is not modelled travels alone (its transaction's outcome is then
			// compared only up to "passed the PoA decorators")
			for i, m := range msgs {
				if m.Kind == "tree" && b == 0 {
					// height 1: the PoA filters are off and x/staking's own handlers would run; they are not modelled
					msgs[i] = genNoise(r)
					for msgs[i].Kind == "tree" {
						msgs[i] = genNoise(r)
					}
				}
			}
			for _, m := range msgs {
				if m.Kind == "tree" {
					msgs = []MsgSpec{m}
					break
				}
			}
			blk.Txs = append(blk.Txs, TxSpec{Msgs: msgs})
		}
		if len(blk.Txs) > 0 || len(blk.Absent) > 0 || len(blk.Evidence) > 0 {
			lastUnbondingRisk = b
		}
		h.Blocks = append(h.Blocks, blk)
	}
	_ = M
	return h
}

func (s *simState) genWorkflow(r *rand.Rand) MsgSpec {
	M := uint64(1_000_000)
	// a removed validator whose record is gone applies again under its old key (the workflow below admits it later)
	if v, ok := anyKey(r, s.matured); ok && r.Intn(3) == 0 {
		delete(s.matured, v)
		delete(s.removed, v)
		s.pending[v] = true
		return createMsg(v, v)
	}
	switch x := r.Intn(100); {
	case x < 12 && s.next < poolSize: // new application
		id := s.next
		s.next++
		s.pending[id] = true
		m := createMsg(id, id)
		if r.Intn(2) == 0 { // rates inside the ante range, around a possible chain minimum
			m.Rate = pick(r, []*big.Int{mulFrac(1, 10), mulFrac(2, 10), mulFrac(3, 10), mulFrac(5, 10)})
			m.MaxRate = pick(r, []*big.Int{m.Rate, mulFrac(5, 10), new(big.Int).Set(ten18)})
			m.MaxChg = pick(r, []*big.Int{big.NewInt(0), mulFrac(1, 10)})
		}
		return m
	case x < 30: // admit a pending validator
		if id, ok := anyKey(r, s.pending); ok {
			p := pick(r, []uint64{1, 1, 2, 3, 5, 10})
			delete(s.pending, id)
			s.power[id] = int64(p)
			s.justAdmitted = id
			return sp(adminID, id, p*M, r.Intn(3) == 0)
		}
		fallthrough
	case x < 80: // adjust an active validator around the limit
		v := s.anyActive(r)
		p := s.boundaryPower(r, v)
		unsafe := r.Intn(6) == 0
		s.history[v] = append(s.history[v], s.power[v])
		s.power[v] = int64(p / M)
		return sp(adminID, v, p, unsafe)
	case x < 90: // removal
		v := s.anyActive(r)
		if len(s.power) > 1 || r.Intn(4) == 0 {
			delete(s.power, v)
			s.removed[v] = true
			s.lastRemoved, s.lastRemovedAt = v, s.cur
		}
		sender := adminID
		if r.Intn(4) == 0 {
			sender = v
		}
		return rm(sender, v)
	default:
		if id, ok := anyKey(r, s.pending); ok {
			delete(s.pending, id)
			return MsgSpec{Kind: "removepending", Sender: adminID, Val: id}
		}
		return sp(adminID, s.anyActive(r), 7*M, true)
	}
}

func (s *simState) genHazard(r *rand.Rand, g Genesis) MsgSpec {
	M := uint64(1_000_000)
	switch r.Intn(17) {
	case 12, 13: // operate again on the validator admitted last (same block or the next)
		v := s.justAdmitted
		if _, ok := s.power[v]; ok {
			if r.Intn(2) == 0 {
				return rm(adminID, v)
			}
			return sp(adminID, v, uint64(pick(r, []int64{1, 2, 5, s.power[v]}))*M, true)
		}
	case 0: // return to an earlier power
		v := s.anyActive(r)
		if hs := s.history[v]; len(hs) > 0 {
			return sp(adminID, v, uint64(pick(r, hs))*M, r.Intn(2) == 0)
		}
		return sp(adminID, v, uint64(s.power[v])*M, true) // same power
	case 1: // operate on a jailed validator
		if v, ok := anyKey(r, s.jailed); ok {
			if r.Intn(2) == 0 {
				return sp(adminID, v, uint64(1+r.Intn(20))*M, true)
			}
			return rm(adminID, v)
		}
	case 2: // operate on a removed validator
		if v, ok := anyKey(r, s.removed); ok {
			if r.Intn(3) == 0 {
				return rm(adminID, v)
			}
			if r.Intn(3) == 0 { // it applies again (accepted once its record is gone); the workflow admits it later
				delete(s.removed, v)
				s.pending[v] = true
				return createMsg(v, pick(r, []int{v, v, v, r.Intn(poolSize)}))
			}
			return sp(adminID, v, uint64(1+r.Intn(20))*M, true)
		}
	case 3: // unjail (maybe too early, maybe not jailed)
		if v, ok := anyKey(r, s.jailed); ok && r.Intn(4) != 0 {
			if r.Intn(2) == 0 {
				delete(s.jailed, v)
				s.power[v] = 1
				s.justUnjailed = v
			}
			return MsgSpec{Kind: "unjail", Sender: v, Val: v}
		}
		v := s.anyActive(r)
		return MsgSpec{Kind: "unjail", Sender: v, Val: v}
	case 4: // unknown / pending-only targets
		return pick(r, []MsgSpec{sp(adminID, unknownVal, 5*M, true), rm(adminID, unknownVal), rm(adminID, s.next%poolSize),
			{Kind: "removepending", Sender: adminID, Val: unknownVal}})
	case 5: // parameter change
		p := paramTuple{Unbonding: pick(r, []int64{int64(10e9), int64(20e9), int64(30e9)}), MaxVals: pick(r, []uint32{1, 2, 3, 4, 100}), MaxEntries: 7, Hist: pick(r, []uint32{0, 5, 10000}), Denom: "stake", MinComm: pick(r, []*big.Int{big.NewInt(0), mulFrac(5, 100), mulFrac(2, 10), mulFrac(3, 10), mulFrac(5, 10)})}
		return MsgSpec{Kind: "params", Sender: adminID, Params: &p}
	case 6: // remove down to one (and try zero)
		v := s.anyActive(r)
		delete(s.power, v)
		s.removed[v] = true
		return rm(adminID, v)
	case 7: // application reusing an operator or key
		id := r.Intn(poolSize)
		return createMsg(id, r.Intn(poolSize))
	case 9: // restore a validator that was slashed and unjailed to exactly an amount it had before
		if v := s.justUnjailed; v >= 0 {
			if hs := s.history[v]; len(hs) > 0 {
				if _, ok := s.power[v]; ok {
					return sp(adminID, v, uint64(hs[len(hs)-1])*M, r.Intn(2) == 0)
				}
			}
		}
	case 10: // the same address, spelled in upper case
		m := pick(r, []MsgSpec{createMsg(s.next%poolSize, r.Intn(poolSize)), sp(adminID, s.anyActive(r), uint64(1+r.Intn(20))*M, true),
			{Kind: "removepending", Sender: adminID, Val: s.next % poolSize}, createMsg((s.next+poolSize-1)%poolSize, r.Intn(poolSize))})
		m.Upper = true
		return m
	case 11: // a jailed (possibly long unbonded) validator applies again with another key
		if v, ok := anyKey(r, s.jailed); ok {
			return createMsg(v, r.Intn(poolSize))
		}
	case 8: // big unsafe jump
		v := s.anyActive(r)
		p := uint64(pick(r, []int64{1, 50, 1000, 1_000_000}))
		s.power[v] = int64(p)
		return sp(adminID, v, p*M, true)
	}
	// repeat target of the last operation
	v := s.anyActive(r)
	return sp(adminID, v, s.boundaryPower(r, v), r.Intn(3) == 0)
}

func (s *simState) genAuthority(r *rand.Rand) MsgSpec {
	M := uint64(1_000_000)
	v := s.anyActive(r)
	other := (v + 1) % poolSize
	sender := pick(r, []int{user1ID, user1ID, v, other, s.next % poolSize, user2ID})
	switch r.Intn(5) {
	case 0:
		return sp(sender, v, uint64(1+r.Intn(30))*M, r.Intn(2) == 0)
	case 1:
		return rm(sender, pick(r, []int{v, other, unknownVal}))
	case 2:
		return MsgSpec{Kind: "removepending", Sender: sender, Val: pick(r, []int{v, s.next % poolSize, unknownVal})}
	case 3:
		p := genParamTuple(r)
		p.MaxVals, p.Hist = 100, 100
		return MsgSpec{Kind: "params", Sender: sender, Params: &p}
	}
	if id, ok := anyKey(r, s.pending); ok {
		return sp(sender, id, 2*M, true) // non-admin tries to admit
	}
	return sp(sender, v, 3*M, true)
}

func (s *simState) genMalformed(r *rand.Rand) MsgSpec {
	v := s.anyActive(r)
	switch r.Intn(6) {
	case 0, 1:
		return sp(adminID, v, powerBoundaries(r), r.Intn(2) == 0)
	case 2:
		p := genParamTuple(r)
		// environment bounds (DESIGN.md H-time, H-maxvals): accepted tuples keep the unbonding time >= 10 s and
		// max_validators / historical_entries small enough for x/staking's own per-block allocations
		if p.Unbonding > 0 && p.Unbonding < int64(10e9) {
			p.Unbonding = int64(10e9)
		}
		if p.MaxVals > 1000 {
			p.MaxVals = 1000
		}
		if p.Hist > 10000 {
			p.Hist = 10000
		}
		return MsgSpec{Kind: "params", Sender: adminID, Params: &p}
	case 3:
		id := s.next % poolSize
		m := createMsg(id, id)
		ch := decChoices()
		m.Rate, m.MaxRate, m.MaxChg = pick(r, ch), pick(r, ch), pick(r, ch)
		m.MSD = pick(r, []int64{0, 1, 5, 1_000_000})
		m.Moniker = pick(r, []int{0, 1, 70, 71})
		return m
	case 4:
		return sp(adminID, -2, 5_000_000, true) // malformed validator address
	}
	id := s.next % poolSize
	m := createMsg(id, pick(r, []int{id, -1, 0}))
	return m
}

func genNoise(r *rand.Rand) MsgSpec {
	if r.Intn(2) == 0 {
		return MsgSpec{Kind: "send", Sender: pick(r, []int{user1ID, adminID, 0, 1})}
	}
	g := &treeGen{r: r, rates: []*big.Int{mulFrac(1, 10), mulFrac(9, 10), mulFrac(3, 10)}, leafBias: pick(r, []string{"stk", "wd", "comm"}), pInterest: 0.4}
	t := g.tree(pick(r, []int{0, 1, 2, 3}), 2)
	if t.Wrap != "" && len(t.Children) == 0 {
		t.Children = []*Tree{g.leaf()}
	}
	fixUnpack(t)
	return MsgSpec{Kind: "tree", Sender: pick(r, []int{user1ID, 0, 1}), Tree: t}
}

// signed transactions cannot carry Anys that do not unpack (the tx decoder refuses them)
func fixUnpack(t *Tree) {
	if t.Wrap != "" {
		t.UnpackOK = true
		if len(t.Children) == 0 {
			t.Children = []*Tree{{Leaf: "other:0"}}
		}
		for _, c := range t.Children {
			fixUnpack(c)
		}
	}
	if t.Leaf == "poacreate" {
		t.Leaf = "edit" // a poa create inside a tree needs its own signer; keep trees to one signer
	}
	if t.Leaf == "edit" {
		t.Rate = nil // commission limits are exercised at L3 and through create messages; here: a description-only edit
	}
}
