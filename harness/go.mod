module verif/harness

go 1.21

require (
	github.com/strangelove-ventures/poa v0.0.0-00010101000000-000000000000
	github.com/strangelove-ventures/poa/simapp v0.0.0-00010101000000-000000000000
)

replace (
	github.com/strangelove-ventures/poa => /repo
	github.com/strangelove-ventures/poa/simapp => /repo/simapp
)
