(* Minimal s-expression reader and Z conversions for the model driver (hand-written, trusted glue). *)
type sexp = Atom of string | List of sexp list | Brack of sexp list

exception Parse_error of string

let parse (s : string) : sexp =
  let n = String.length s in
  let pos = ref 0 in
  let rec skip () = if !pos < n && (s.[!pos] = ' ' || s.[!pos] = '\t' || s.[!pos] = '\n' || s.[!pos] = '\r') then (incr pos; skip ()) in
  let rec item () =
    skip ();
    if !pos >= n then raise (Parse_error "eof");
    match s.[!pos] with
    | '(' -> incr pos; List (items ')')
    | '[' -> incr pos; Brack (items ']')
    | ')' | ']' -> raise (Parse_error "unexpected close")
    | _ ->
      let st = !pos in
      while !pos < n && (match s.[!pos] with ' ' | '\t' | '\n' | '\r' | '(' | ')' | '[' | ']' -> false | _ -> true) do incr pos done;
      Atom (String.sub s st (!pos - st))
  and items close =
    skip ();
    if !pos >= n then raise (Parse_error "eof in list");
    if s.[!pos] = close then (incr pos; [])
    else let x = item () in x :: items close
  in
  let r = item () in
  skip ();
  if !pos <> n then raise (Parse_error "trailing input");
  r

open Model

let rec pos_of_int (i : int) : positive =
  if i = 1 then XH else if i land 1 = 0 then XO (pos_of_int (i lsr 1)) else XI (pos_of_int (i lsr 1))

let z_of_int (i : int) : z = if i = 0 then Z0 else if i > 0 then Zpos (pos_of_int i) else Zneg (pos_of_int (-i))

let z_ten = z_of_int 10

let z_of_string (s : string) : z =
  let neg, st = if String.length s > 0 && s.[0] = '-' then true, 1 else false, 0 in
  let len = String.length s - st in
  if len <= 0 then raise (Parse_error ("bad int " ^ s));
  let v =
    if len <= 17 then z_of_int (int_of_string (String.sub s st len))
    else begin
      let acc = ref Z0 in
      for i = st to String.length s - 1 do
        let d = Char.code s.[i] - 48 in
        if d < 0 || d > 9 then raise (Parse_error ("bad int " ^ s));
        acc := Z.add (Z.mul !acc z_ten) (z_of_int d)
      done; !acc
    end in
  if neg then Z.opp v else v

let rec pos_bits (p : positive) : int = match p with XH -> 1 | XO q | XI q -> 1 + pos_bits q
let rec int_of_pos (p : positive) : int = match p with XH -> 1 | XO q -> 2 * int_of_pos q | XI q -> 2 * int_of_pos q + 1

let rec string_of_posz (v : z) : string =   (* v >= 0 *)
  match v with
  | Z0 -> "0"
  | Zpos p when pos_bits p <= 60 -> string_of_int (int_of_pos p)
  | _ ->
    let q = Z.div v z_ten and r = Z.modulo v z_ten in
    let rs = (match r with Z0 -> "0" | Zpos p -> string_of_int (int_of_pos p) | Zneg _ -> "?") in
    (match q with Z0 -> rs | _ -> string_of_posz q ^ rs)

let string_of_z (v : z) : string =
  match v with
  | Zneg p -> "-" ^ string_of_posz (Zpos p)
  | _ -> string_of_posz v

let int_of_z (v : z) : int = match v with Z0 -> 0 | Zpos p -> int_of_pos p | Zneg p -> - (int_of_pos p)

let rec nat_of_int (i : int) : nat = if i <= 0 then O else S (nat_of_int (i - 1))

(* generic field readers *)
let bad what x = raise (Parse_error ("expected " ^ what ^ ", got " ^ (match x with Atom a -> a | List _ -> "(list)" | Brack _ -> "[list]")))
let to_z = function Atom a -> z_of_string a | x -> bad "int" x
let to_bool = function Atom "true" -> true | Atom "false" -> false | x -> bad "bool" x
let to_list f = function Brack l -> List.map f l | x -> bad "[...]" x
let to_opt f = function Atom "None" -> None | List [Atom "Some"; x] -> Some (f x) | x -> bad "option" x
