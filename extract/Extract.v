(* Extraction of the executable model. ExtrOcamlBasic only: bool, option, unit, prod, list, sumbool map
   to OCaml's; Z/positive/N/nat stay Coq datatypes. No user Extract directive. *)
From Coq Require Import Extraction ExtrOcamlBasic.
Require Import Model.Base Model.Ante Model.Validate Model.Current Model.Cases Model.State Model.App.
Extraction "model.ml" run_case run_history Z.add Z.mul Z.sub Z.div Z.modulo Z.opp Z.ltb Z.eqb Z.of_nat.
