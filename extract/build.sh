#!/bin/sh
# Re-extracts the model and builds the OCaml driver. Run from /verif/extract.
set -e
cd "$(dirname "$0")"
coqc -Q ../coq/Model Model Extract.v >/dev/null
ocamlfind ocamlopt -O3 -w -a -package str model.mli model.ml sexp.ml driver.ml -o poa_model 2>/dev/null || \
ocamlfind ocamlopt -w -a model.mli model.ml sexp.ml driver.ml -o poa_model
