(* poa_model: runs the extracted Coq model on cases / histories read from stdin, one per line. *)
open Model
open Sexp

let to_stk = function
  | Atom "SCreateValidator" -> SCreateValidator | Atom "SDelegate" -> SDelegate
  | Atom "SUndelegate" -> SUndelegate | Atom "SBeginRedelegate" -> SBeginRedelegate
  | Atom "SCancelUnbonding" -> SCancelUnbonding | Atom "SUpdateParams" -> SUpdateParams
  | x -> bad "stk_kind" x
let to_wrapper = function
  | Atom "WAuthzExec" -> WAuthzExec | Atom "WGovSubmit" -> WGovSubmit | Atom "WGroupSubmit" -> WGroupSubmit
  | x -> bad "wrapper" x
let to_leaf = function
  | List [Atom "LStaking"; k] -> LStaking (to_stk k)
  | List [Atom "LEditValidator"; r] -> LEditValidator (to_opt to_z r)
  | List [Atom "LPoaCreate"; r] -> LPoaCreate (to_opt to_z r)
  | Atom "LWithdrawReward" -> LWithdrawReward
  | Atom "LOther" -> LOther
  | x -> bad "leaf" x
let rec to_msg = function
  | List [Atom "Leaf"; l] -> Leaf (to_leaf l)
  | List [Atom "Wrap"; w; ok; cs] -> Wrap (to_wrapper w, to_bool ok, to_list to_msg cs)
  | x -> bad "msg" x
let to_desc = function
  | List [Atom "Build_desc_lens"; a; b; c; d; e] ->
    { dl_moniker = to_z a; dl_identity = to_z b; dl_website = to_z c; dl_security = to_z d; dl_details = to_z e }
  | x -> bad "desc_lens" x
let to_dec = to_opt to_z
let to_create_basic = function
  | List [Atom "Build_create_basic"; a; p; d; r; m; c] ->
    { cb_addr_ok = to_bool a; cb_has_pubkey = to_bool p; cb_desc = to_desc d; cb_rate = to_dec r; cb_max = to_dec m; cb_chg = to_dec c }
  | x -> bad "create_basic" x
let to_sparams = function
  | List [Atom "Build_sparams"; a; b; c; d; e; f; g] ->
    { sp_unbonding_time = to_z a; sp_max_validators = to_z b; sp_max_entries = to_z c; sp_historical_entries = to_z d;
      sp_bond_denom_ok = to_bool e; sp_bond_denom = to_z f; sp_min_commission = to_dec g }
  | x -> bad "sparams" x

let to_case = function
  | List [Atom "CSetPowerValidate"; a; p] -> CSetPowerValidate (to_bool a, to_z p)
  | List [Atom "CStkDecorator"; h; ms] -> CStkDecorator (to_z h, to_list to_msg ms)
  | List [Atom "CWdDecorator"; h; ms] -> CWdDecorator (to_z h, to_list to_msg ms)
  | List [Atom "CCommDecorator"; g; lo; hi; h; ms] -> CCommDecorator (to_bool g, to_z lo, to_z hi, to_z h, to_list to_msg ms)
  | List [Atom "CCommissionValidate"; r; m; c] -> CCommissionValidate (to_dec r, to_dec m, to_dec c)
  | List [Atom "CPoaCreateValidate"; c] -> CPoaCreateValidate (to_create_basic c)
  | List [Atom "CStakingCreateValidate"; c; vv; v; msd] -> CStakingCreateValidate (to_create_basic c, to_bool vv, to_z v, to_z msd)
  | List [Atom "CEnsureLength"; d] -> CEnsureLength (to_desc d)
  | List [Atom "CParamsValidate"; p] -> CParamsValidate (to_sparams p)
  | x -> bad "case" x

let string_of_outcome = function
  | OPass -> "pass"
  | OErr (cs, c) -> Printf.sprintf "err %s %s" (string_of_z cs) (string_of_z c)
  | OPanic -> "panic"
  | OBool b -> if b then "true" else "false"

let run_cases () =
  try
    while true do
      let line = input_line stdin in
      if String.length line > 0 && line.[0] <> '#' then begin
        let out = try string_of_outcome (run_case (to_case (parse line)))
          with Parse_error m -> "PARSE-ERROR " ^ m in
        print_endline out
      end
    done
  with End_of_file -> ()

let () =
  match Array.to_list Sys.argv with
  | [_; "cases"] -> run_cases ()
  | _ -> prerr_endline "usage: poa_model cases < cases.txt"; exit 2
