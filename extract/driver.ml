(* poa_model: runs the extracted Coq model on cases / histories read from stdin, one per line. *)
open Model
open Sexp

let to_stk = function
  | Atom "SCreateValidator" -> SCreateValidator | Atom "SDelegate" -> SDelegate
  | Atom "SUndelegate" -> SUndelegate | Atom "SBeginRedelegate" -> SBeginRedelegate
  | Atom "SCancelUnbonding" -> SCancelUnbonding | Atom "SUpdateParams" -> SUpdateParams
  | x -> bad "stk_kind" x
let to_wrapper = function
  | Atom "WAuthzExec" -> WAuthzExec | Atom "WGovSubmit" -> WGovSubmit | Atom "WGroupSubmit" -> WGroupSubmit
  | x -> bad "wrapper" x
let to_leaf = function
  | List [Atom "LStaking"; k] -> LStaking (to_stk k)
  | List [Atom "LEditValidator"; r] -> LEditValidator (to_opt to_z r)
  | List [Atom "LPoaCreate"; r] -> LPoaCreate (to_opt to_z r)
  | Atom "LWithdrawReward" -> LWithdrawReward
  | Atom "LOther" -> LOther
  | x -> bad "leaf" x
let rec to_msg = function
  | List [Atom "Leaf"; l] -> Leaf (to_leaf l)
  | List [Atom "Wrap"; w; ok; cs] -> Wrap (to_wrapper w, to_bool ok, to_list to_msg cs)
  | x -> bad "msg" x
let to_desc = function
  | List [Atom "Build_desc_lens"; a; b; c; d; e] ->
    { dl_moniker = to_z a; dl_identity = to_z b; dl_website = to_z c; dl_security = to_z d; dl_details = to_z e }
  | x -> bad "desc_lens" x
let to_dec = to_opt to_z
let to_create_basic = function
  | List [Atom "Build_create_basic"; a; p; d; r; m; c] ->
    { cb_addr_ok = to_bool a; cb_has_pubkey = to_bool p; cb_desc = to_desc d; cb_rate = to_dec r; cb_max = to_dec m; cb_chg = to_dec c }
  | x -> bad "create_basic" x
let to_sparams = function
  | List [Atom "Build_sparams"; a; b; c; d; e; f; g] ->
    { sp_unbonding_time = to_z a; sp_max_validators = to_z b; sp_max_entries = to_z c; sp_historical_entries = to_z d;
      sp_bond_denom_ok = to_bool e; sp_bond_denom = to_z f; sp_min_commission = to_dec g }
  | x -> bad "sparams" x

let to_case = function
  | List [Atom "CSetPowerValidate"; a; p] -> CSetPowerValidate (to_bool a, to_z p)
  | List [Atom "CStkDecorator"; h; ms] -> CStkDecorator (to_z h, to_list to_msg ms)
  | List [Atom "CWdDecorator"; h; ms] -> CWdDecorator (to_z h, to_list to_msg ms)
  | List [Atom "CCommDecorator"; g; lo; hi; h; ms] -> CCommDecorator (to_bool g, to_z lo, to_z hi, to_z h, to_list to_msg ms)
  | List [Atom "CCommissionValidate"; r; m; c] -> CCommissionValidate (to_dec r, to_dec m, to_dec c)
  | List [Atom "CPoaCreateValidate"; c] -> CPoaCreateValidate (to_create_basic c)
  | List [Atom "CStakingCreateValidate"; c; vv; v; msd] -> CStakingCreateValidate (to_create_basic c, to_bool vv, to_z v, to_z msd)
  | List [Atom "CEnsureLength"; d] -> CEnsureLength (to_desc d)
  | List [Atom "CParamsValidate"; p] -> CParamsValidate (to_sparams p)
  | x -> bad "case" x

let to_l1msg = function
  | List [Atom "MSetPower"; s; v; p; u] -> MSetPower (to_z s, to_z v, to_z p, to_bool u)
  | List [Atom "MRemoveValidator"; s; v] -> MRemoveValidator (to_z s, to_z v)
  | List [Atom "MRemovePending"; s; v] -> MRemovePending (to_z s, to_z v)
  | List [Atom "MCreateValidator"; v; k; mon; r; m; c; msd] -> MCreateValidator (to_z v, to_z k, to_z mon, to_dec r, to_dec m, to_dec c, to_z msd)
  | List [Atom "MUpdateParams"; s; p] -> MUpdateParams (to_z s, to_sparams p)
  | List [Atom "MUnjail"; v] -> MUnjail (to_z v)
  | List [Atom "MOther"; s] -> MOther (to_z s)
  | List [Atom "MTree"; s; t] -> MTree (to_z s, to_msg t)
  | x -> bad "l1msg" x
let to_evidence = function
  | List [Atom "Build_evidence"; k; h; t; p] -> { ev_cons = to_z k; ev_height = to_z h; ev_time = to_z t; ev_power = to_z p }
  | x -> bad "evidence" x
let to_block = function
  | List [Atom "Build_block"; dt; abs; evs; txs] ->
    { b_dt = to_z dt; b_absent = to_list to_z abs; b_evidence = to_list to_evidence evs; b_txs = to_list (to_list to_l1msg) txs }
  | x -> bad "block" x
let to_genesis = function
  | List [Atom "Build_genesis"; toks; a; b; c; d; e; f; g] ->
    { g_tokens = to_list to_z toks; g_max_vals = to_z a; g_unbond_secs = to_z b; g_window = to_z c; g_min_signed_pc = to_z d;
      g_jail_secs = to_z e; g_slash_down_bp = to_z f; g_slash_dbl_bp = to_z g }
  | x -> bad "genesis" x
let to_history = function
  | List [Atom "Build_history"; g; bs] -> { h_genesis = to_genesis g; h_blocks = to_list to_block bs }
  | x -> bad "history" x

let tag_name t = match int_of_z t with
  | 1 -> "H" | 2 -> "TX" | 3 -> "UPD" | 4 -> "HALT" | 5 -> "COMET" | 6 -> "VAL" | 7 -> "DEL" | 8 -> "IDX" | 9 -> "LAST"
  | 10 -> "LTOT" | 11 -> "UBQ" | 12 -> "PARAMS" | 13 -> "SIGN" | 14 -> "PEND" | 15 -> "POA" | 16 -> "POOL" | 17 -> "SUPPLY"
  | 18 -> "QPOWER" | 19 -> "SEQ" | 20 -> "INITUPD" | n -> "T" ^ string_of_int n

let print_row (Row (t, fs)) =
  print_string (tag_name t);
  List.iter (fun f -> print_char ' '; print_string (string_of_z f)) fs;
  print_newline ()

let run_histories () =
  let i = ref 0 in
  try
    while true do
      let line = input_line stdin in
      if String.length line > 0 && line.[0] <> '#' then begin
        Printf.printf "== %d\n" !i;
        (try List.iter print_row (run_history (to_history (parse line)))
         with Parse_error m -> print_endline ("PARSE-ERROR " ^ m));
        incr i
      end
    done
  with End_of_file -> ()

let string_of_outcome = function
  | OPass -> "pass"
  | OErr (cs, c) -> Printf.sprintf "err %s %s" (string_of_z cs) (string_of_z c)
  | OPanic -> "panic"
  | OBool b -> if b then "true" else "false"

let run_cases () =
  try
    while true do
      let line = input_line stdin in
      if String.length line > 0 && line.[0] <> '#' then begin
        let out = try string_of_outcome (run_case (to_case (parse line)))
          with Parse_error m -> "PARSE-ERROR " ^ m in
        print_endline out
      end
    done
  with End_of_file -> ()

let () =
  match Array.to_list Sys.argv with
  | [_; "cases"] -> run_cases ()
  | [_; "hist"] -> run_histories ()
  | _ -> prerr_endline "usage: poa_model cases < cases.txt"; exit 2
